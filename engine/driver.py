"""Check driver: generates stub modules (one per harness x cube), runs them under CrossHair/z3 on a
process pool, replays every counterexample concretely against the real library, writes evidence."""
from __future__ import annotations

import argparse
import hashlib
import importlib
import json
import multiprocessing as mp
import os
import random
import shutil
import subprocess
import sys
import tempfile
import time

ROOT = os.path.dirname(os.path.dirname(os.path.abspath(__file__)))
REPO = os.environ.get("VERIF_REPO", "/repo")
VENV_PY = os.environ.get("VERIF_REPLAY_PY", "/venv/bin/python")
for p in (ROOT, REPO):
    if p not in sys.path:
        sys.path.insert(0, p)
os.environ.setdefault("PYTHONDONTWRITEBYTECODE", "1")
sys.dont_write_bytecode = True

from engine import registry  # noqa: E402

EXIT_OK, EXIT_VIOLATION, EXIT_HARNESS = 0, 1, 3
MAX_SPURIOUS = 5


def log(*a):
    print(*a, flush=True)


# --------------------------------------------------------------------------------------------
# concrete replays (under the repository's own interpreter)
# --------------------------------------------------------------------------------------------
def replay_batch(items, timeout=600):
    if not items:
        return []
    with tempfile.NamedTemporaryFile("w", suffix=".json", delete=False, dir=workdir()) as f:
        json.dump(items, f)
        path = f.name
    env = dict(os.environ, PYTHONPATH=ROOT + os.pathsep + REPO, PYTHONDONTWRITEBYTECODE="1",
               PYTHONHASHSEED=os.environ.get("PYTHONHASHSEED", "0"), VERIF_REPO=REPO)
    try:
        p = subprocess.run([VENV_PY, os.path.join(ROOT, "engine", "replay.py"), path],
                           capture_output=True, text=True, env=env, timeout=timeout)
        if p.returncode != 0:
            raise RuntimeError("replay runner failed: " + p.stderr[-2000:])
        return json.loads(p.stdout)
    finally:
        os.unlink(path)


_WORK = None


def workdir():
    global _WORK
    if _WORK is None:
        _WORK = os.path.join(ROOT, ".work")
        os.makedirs(_WORK, exist_ok=True)
    return _WORK


# --------------------------------------------------------------------------------------------
# stub generation
# --------------------------------------------------------------------------------------------
def ann(p):
    a = p.annotation
    if isinstance(a, str):
        return a
    return getattr(a, "__name__", repr(a))


def write_stub(h, tier, cube, idx, extra_pre, outdir):
    free = h.free_params(tier)
    bounds = h.tier_bounds(tier)
    lines = [
        "import collections, sys",
        "sys.path[:0] = [%r, %r]" % (ROOT, REPO),
        "import %s as _m" % h.module,
        "_h = _m.%s" % h.name,
        "_OUTCOMES = collections.Counter()",
    ]
    for k, v in bounds.items():
        lines.append("%s = %r" % (k, v))
    for k, v in cube.items():
        lines.append("%s = %r" % (k, v))
    sig = ", ".join("%s: %s" % (p.name, ann(p)) for p in free)
    lines.append("def stub(%s) -> int:" % sig)
    lines.append('    """')
    for pre in h.pre + list(extra_pre):
        lines.append("    pre: " + pre)
    lines.append("    post: _ != 0")
    lines.append('    """')
    call = ", ".join(["%s=%s" % (k, k) for k in cube] + ["%s=%s" % (p.name, p.name) for p in free])
    lines.append("    r = _h(%s)" % call)
    lines.append("    _OUTCOMES[r] += 1")
    lines.append("    return r")
    path = os.path.join(outdir, "%s__%04d.py" % (h.name, idx))
    with open(path, "w") as f:
        f.write("\n".join(lines) + "\n")
    return path


def exclusion_pre(point, free_names):
    parts = ["%s == %r" % (k, point[k]) for k in free_names if k in point]
    if not parts:
        return None
    return "not (" + " and ".join(parts) + ")"


# --------------------------------------------------------------------------------------------
def _preload():
    """Import CrossHair/z3 and install the worker patches once, in the parent: forked job processes inherit them."""
    from engine import worker

    worker._install()


def _child(spec, conn):
    import faulthandler

    from engine import worker

    try:
        # last line of defence inside the child: dump the stack and exit if the job overruns its hard limit
        faulthandler.dump_traceback_later(spec["hard"], exit=True, file=open(spec["stub"] + ".hang", "w"))
        res = worker.run_job(spec)
        faulthandler.cancel_dump_traceback_later()
    except BaseException as e:  # noqa
        res = dict(job=spec["id"], verdict="ERROR", messages=[("EXC", repr(e))], paths=0)
    try:
        conn.send(res)
    finally:
        conn.close()


def run_specs(specs, nproc):
    """One forked process per job, at most nproc at a time, each under a hard wall-clock limit (a job whose single path
    never returns - a solver call or a loop that does not come back - is killed and reported UNKNOWN)."""
    import multiprocessing.connection as mpc

    ctx = mp.get_context("fork")
    todo = list(specs)
    todo.reverse()
    running = {}
    while todo or running:
        while todo and len(running) < nproc:
            sp = todo.pop()
            sp["hard"] = max(60.0, 2.0 * float(sp["timeout"]) + 60.0)
            parent, child = ctx.Pipe(duplex=False)
            p = ctx.Process(target=_child, args=(sp, child), daemon=True)
            p.start()
            child.close()
            running[parent] = (p, sp, time.time())
        ready = mpc.wait(list(running), timeout=1.0)
        for conn in ready:
            p, sp, t0 = running.pop(conn)
            try:
                res = conn.recv()
            except (EOFError, OSError):
                hang = ""
                try:
                    hang = open(sp["stub"] + ".hang").read()[-1500:]
                except Exception:
                    pass
                res = dict(job=sp["id"], verdict="UNKNOWN", messages=[("HARD_TIMEOUT", "job process ended without a result " + hang)],
                           paths=0, wall_s=time.time() - t0, hard_timeout=True)
            conn.close()
            p.join(5)
            yield res
        now = time.time()
        for conn, (p, sp, t0) in list(running.items()):
            if now - t0 > sp["hard"] + 30:
                p.kill()
                p.join(5)
                running.pop(conn)
                conn.close()
                yield dict(job=sp["id"], verdict="UNKNOWN", messages=[("HARD_TIMEOUT", "killed by the driver")], paths=0,
                           wall_s=now - t0, hard_timeout=True)


def load_known_file():
    path = os.path.join(ROOT, "known_findings.json")
    if not os.path.exists(path):
        return {"findings": [], "fixed": []}
    return json.load(open(path))


def prop_module(prop):
    return importlib.import_module("harness." + prop.lower())


def main(argv=None):
    ap = argparse.ArgumentParser()
    ap.add_argument("prop", nargs="?")
    ap.add_argument("--tier", default=os.environ.get("VERIF_TIER", "quick"), choices=["quick", "thorough"])
    ap.add_argument("--replay")
    ap.add_argument("--only", default=None, help="comma-separated harness names")
    ap.add_argument("--jobs", type=int, default=int(os.environ.get("VERIF_JOBS", "0")) or (os.cpu_count() or 4))
    ap.add_argument("--keep", action="store_true")
    ap.add_argument("--cube", default=None, help="dev: only cubes matching k=v,k=v")
    ap.add_argument("--no-evidence", action="store_true")
    ap.add_argument("--timeout-scale", type=float, default=float(os.environ.get("VERIF_TIMEOUT_SCALE", "1")))
    args = ap.parse_args(argv)

    if args.replay:
        return do_replay(args.replay)
    if not args.prop:
        ap.error("property id required")
    prop = args.prop.upper()
    tier = args.tier
    seed = int(os.environ.get("VERIF_SEED", "0") or 0)
    t_start = time.time()

    # ---- the real code must import under both interpreters ----------------------------------
    try:
        import pypika_tortoise  # noqa: F401
        mod = prop_module(prop)
    except Exception as e:  # pragma: no cover
        log("HARNESS-ERROR: cannot import library/harness under python3-vt: %r" % (e,))
        return EXIT_HARNESS
    repo_file = os.path.realpath(pypika_tortoise.__file__)
    if not repo_file.startswith(os.path.realpath(REPO)):
        log("HARNESS-ERROR: pypika_tortoise imported from %s, not %s" % (repo_file, REPO))
        return EXIT_HARNESS

    hs = [h for h in registry.REGISTRY.values() if h.prop == prop and h.module == mod.__name__]
    if args.only:
        names = set(args.only.split(","))
        hs = [h for h in hs if h.name in names]
    if not hs:
        log("HARNESS-ERROR: no harness registered for", prop)
        return EXIT_HARNESS

    # replays of earlier runs of this property are stale once it is checked again
    if not args.only and not args.cube:
        shutil.rmtree(os.path.join(ROOT, "replays", prop), ignore_errors=True)
    violations = []  # (harness, args, replay result)
    harness_errors = []
    inconclusive = []
    concrete_runs = 0
    functions = set()

    # ---- 1. known findings: replay each listed witness ----------------------------------------
    known = load_known_file()
    kf = [e for e in known.get("findings", []) if e["property"] == prop and e["harness"] in registry.REGISTRY]
    items = [dict(module=registry.REGISTRY[e["harness"]].module, harness=e["harness"], args=e["witness"]) for e in kf]
    known_report = []
    try:
        results = replay_batch(items)
    except Exception as e:
        log("HARNESS-ERROR: replay runner:", e)
        return EXIT_HARNESS
    concrete_runs += len(items)
    for e, r in zip(kf, results):
        st = "still-fails" if r["ret"] == registry.KNOWN else (
            "unlisted-violation" if r["ret"] == registry.VIOL or r["exc"] else "no-longer-reproduces")
        known_report.append(dict(id=e.get("id"), harness=e["harness"], status=st, what=e["what"]))
        if st == "still-fails":
            log("KNOWN-FINDING: property=%s %s [%s %s]" % (prop, e["what"], e["harness"], json.dumps(e["witness"])))
        elif st == "no-longer-reproduces":
            log("note: known finding %s no longer reproduces (%s)" % (e.get("id"), e["what"]))
        else:
            # witness of a listed finding fails but is not covered by its own predicate: bad entry
            harness_errors.append("known finding %s: witness fails outside its class (%s)" % (e.get("id"), (r["exc"] or "")[-300:]))

    # ---- 2. concrete witnesses: reachability of the assertion + functions encoded ------------
    items, owners = [], []
    for h in hs:
        for w in h.witness:
            items.append(dict(module=h.module, harness=h.name, args=w, profile=True))
            owners.append((h, w))
    results = replay_batch(items)
    concrete_runs += len(items)
    witness_ok = {h.name: 0 for h in hs}
    for (h, w), r in zip(owners, results):
        functions.update(r["functions"])
        if r["ret"] == registry.OK:
            witness_ok[h.name] += 1
        elif r["ret"] == registry.VIOL or r["exc"]:
            violations.append((h, w, r, "witness"))
        elif r["ret"] == registry.KNOWN:
            pass
        else:
            harness_errors.append("witness of %s returned SKIP: %r" % (h.name, w))

    # ---- 3. symbolic runs ----------------------------------------------------------------------
    outdir = os.path.join(workdir(), prop, tier)
    shutil.rmtree(outdir, ignore_errors=True)
    os.makedirs(outdir, exist_ok=True)
    jobs = []
    want = dict(kv.split("=") for kv in args.cube.split(",")) if args.cube else {}
    for h in hs:
        for idx, cube in enumerate(h.cube_points(tier)):
            if any(str(cube.get(k)) != v for k, v in want.items()):
                continue
            jobs.append(dict(h=h, cube=cube, idx=idx, extra_pre=[], spurious=0))
    rnd = random.Random(seed)
    rnd.shuffle(jobs)
    # longest-timeout first helps the tail
    jobs.sort(key=lambda j: -j["h"].tier_timeout(tier))

    def spec(j):
        h = j["h"]
        stub = write_stub(h, tier, j["cube"], j["idx"], j["extra_pre"], outdir)
        return dict(id="%s#%d" % (h.name, j["idx"]), stub=stub,
                    timeout=h.tier_timeout(tier) * args.timeout_scale, per_path=h.per_path)

    by_id = {}
    pending = jobs
    round_no = 0
    _preload()
    while pending:
        round_no += 1
        specs = []
        for j in pending:
            s = spec(j)
            by_id[s["id"]] = j
            specs.append(s)
        next_pending = []
        cex = []
        for res in run_specs(specs, args.jobs):
            j = by_id[res["job"]]
            if os.environ.get("VERIF_PROGRESS"):
                log("  .. %s %s paths=%s cpu=%.1fs %s" % (res["job"], res["verdict"], res.get("paths"), res.get("wall_s", 0), json.dumps(j["cube"])))
            j.setdefault("history", []).append(res)
            if res["verdict"] == "COUNTEREXAMPLE":
                cex.append((j, res))
            else:
                j["final"] = res
        # replay all counterexamples of this round in one batch
        items = []
        for j, res in cex:
            point = dict(j["cube"])
            point.update(res.get("counterexample") or {})
            items.append(dict(module=j["h"].module, harness=j["h"].name, args=point))
        rr = replay_batch(items) if items else []
        concrete_runs += len(items)
        for (j, res), item, r in zip(cex, items, rr):
            h = j["h"]
            if res.get("counterexample") is None and h.free_params(tier):
                harness_errors.append("%s: counterexample without captured arguments: %s" % (res["job"], res["messages"]))
                j["final"] = res
                continue
            if r["ret"] == registry.VIOL or r["exc"]:
                violations.append((h, item["args"], r, "solver"))
                j["final"] = res
            else:
                j["spurious"] += 1
                ex = exclusion_pre(item["args"], [p.name for p in h.free_params(tier)])
                log("spurious counterexample (not reproduced concretely) %s %s -> ret=%s" % (res["job"], json.dumps(item["args"]), r["ret"]))
                if j["spurious"] > MAX_SPURIOUS or ex is None:
                    harness_errors.append("%s: persistent spurious counterexamples" % res["job"])
                    res["verdict"] = "SPURIOUS"
                    j["final"] = res
                else:
                    j["extra_pre"].append(ex)
                    next_pending.append(j)
        pending = next_pending

    # ---- 4. collect ----------------------------------------------------------------------------
    total_paths = total_q = 0
    total_z3 = 0.0
    per_h = {}
    samples = []
    exhaustive = True
    for j in jobs:
        h = j["h"]
        res = j.get("final") or {"verdict": "ERROR", "messages": ["no result"], "paths": 0}
        hist = j.get("history", [])
        paths = sum(r.get("paths", 0) for r in hist)
        q = sum(r.get("z3_queries", 0) for r in hist)
        zs = sum(r.get("z3_s", 0.0) for r in hist)
        total_paths += paths
        total_q += q
        total_z3 += zs
        d = per_h.setdefault(h.name, dict(jobs=0, confirmed=0, unknown=0, counterexample=0, errors=0, paths=0,
                                          z3_queries=0, z3_s=0.0, ok_paths=0, skip_paths=0, known_paths=0, cpu_s=0.0))
        d["jobs"] += 1
        d["paths"] += paths
        d["z3_queries"] += q
        d["z3_s"] += zs
        d["cpu_s"] += sum(r.get("wall_s", 0.0) for r in hist)
        oc = res.get("outcomes", {})
        d["ok_paths"] += oc.get("OK", 0)
        d["skip_paths"] += oc.get("SKIP", 0)
        d["known_paths"] += oc.get("KNOWN", 0)
        v = res["verdict"]
        if v == "CONFIRMED":
            d["confirmed"] += 1
        elif v == "UNKNOWN":
            d["unknown"] += 1
            exhaustive = False
            inconclusive.append(res["job"])
        elif v == "COUNTEREXAMPLE":
            d["counterexample"] += 1
            exhaustive = False
        else:
            d["errors"] += 1
            exhaustive = False
            harness_errors.append("%s: %s ...%s" % (res.get("job"), v, str(res.get("messages"))[-900:]))
        if len(samples) < 12 and (j["idx"] % 7 == 0 or v != "CONFIRMED"):
            samples.append(dict(harness=h.name, cube=j["cube"], bounds=h.tier_bounds(tier), pre=h.pre + j["extra_pre"],
                                symbolic=[p.name + ":" + ann(p) for p in h.free_params(tier)],
                                verdict=v, paths=paths, z3_queries=q, outcomes=oc))
    # vacuity: every harness must have reached its assertion on at least one symbolic path
    for h in hs:
        d = per_h.get(h.name)
        if d and d["ok_paths"] + d["known_paths"] == 0 and d["counterexample"] == 0 and d["errors"] == 0:
            harness_errors.append("%s: vacuous (no path reached the assertion)" % h.name)
        if h.witness and witness_ok[h.name] == 0 and not any(v[0] is h for v in violations):
            harness_errors.append("%s: no concrete witness reaches the assertion" % h.name)

    # ---- 5. report -----------------------------------------------------------------------------
    replay_dir = os.path.join(ROOT, "replays", prop)
    vio_lines = []
    seen = set()
    for h, a, r, origin in violations:
        key = hashlib.sha1(json.dumps([h.name, a], sort_keys=True).encode()).hexdigest()[:12]
        if key in seen:
            continue
        seen.add(key)
        os.makedirs(replay_dir, exist_ok=True)
        path = os.path.join(replay_dir, "%s-%s.json" % (h.name, key))
        json.dump(dict(property=prop, module=h.module, harness=h.name, args=a, origin=origin, observed=r,
                       interpreter=VENV_PY, doc=h.doc), open(path, "w"), indent=1)
        vio_lines.append("VIOLATION property=%s replay=%s" % (prop, path))
    wall = time.time() - t_start
    for name, d in sorted(per_h.items()):
        log("  %-34s jobs=%-4d confirmed=%-4d unknown=%-3d cex=%-3d err=%-3d paths=%-6d ok=%-6d known=%-4d z3q=%-7d z3=%.1fs cpu=%.0fs" % (
            name, d["jobs"], d["confirmed"], d["unknown"], d["counterexample"], d["errors"], d["paths"], d["ok_paths"],
            d["known_paths"], d["z3_queries"], d["z3_s"], d["cpu_s"]))
    for x in inconclusive:
        log("INCONCLUSIVE harness=%s (budget exhausted before the path tree)" % x)
    for x in harness_errors:
        log("HARNESS-ERROR:", str(x)[:1200])
    for ln in vio_lines:
        log(ln)
    log("%s tier=%s harnesses=%d jobs=%d paths=%d z3_queries=%d z3_s=%.1f wall=%.1fs exhaustive=%s violations=%d" % (
        prop, tier, len(hs), len(jobs), total_paths, total_q, total_z3, wall, exhaustive, len(vio_lines)))

    if not args.no_evidence and not args.only and not args.cube:
        ev = dict(
            property_id=prop, tier=tier, seed=seed, level="model_checking",
            coverage=dict(
                states=max(total_paths, 1), transitions=max(total_q, 1),
                traces_validated_against_impl=concrete_runs,
                samples=samples or [dict(note="no jobs")],
                evaluations=max(len(jobs), 1),
                distinct_nontrivial=sum(1 for j in jobs if (j.get("final") or {}).get("outcomes", {}).get("OK", 0) > 0),
                rule="one evaluation = one (harness, cube) job = exhaustive symbolic exploration of the real code for all "
                     "values of the symbolic arguments inside the pre-conditions; non-trivial = at least one path reached "
                     "the property's assertion (verdict code OK); states = execution paths closed by the solver; "
                     "transitions = z3 check() calls",
                exhaustive=bool(exhaustive and not vio_lines and not harness_errors),
                engine="CrossHair 0.0.110 (symbolic execution of the real byte-code) + z3 %s" % _z3v(),
                functions_encoded=sorted(functions),
                harnesses={n: dict(d, doc=registry.REGISTRY[n].doc, bounds=registry.REGISTRY[n].tier_bounds(tier),
                                   pre=registry.REGISTRY[n].pre, stubs=registry.REGISTRY[n].stubs,
                                   cube_dims={k: len(v) for k, v in registry.REGISTRY[n].tier_cubes(tier).items()})
                           for n, d in per_h.items()},
                z3_queries=total_q, z3_seconds=round(total_z3, 2), paths=total_paths,
                known_findings=known_report, inconclusive=inconclusive, harness_errors=[str(x)[:500] for x in harness_errors],
                repo_head=_repo_head(),
            ),
            assumptions=getattr(mod, "ASSUMPTIONS", []) + [
                "CrossHair's models of str/int/list/dict/re/copy/json and z3 are trusted; every counterexample is replayed "
                "concretely under /venv/bin/python before being reported",
                "bounds are the `pre:` lines and cube dimensions listed per harness; nothing is claimed outside them",
            ],
            wall_s=round(wall, 2), violations=len(vio_lines),
        )
        extra = getattr(mod, "extra_evidence", None)
        if callable(extra):
            try:
                ev["coverage"]["extra"] = extra()
            except Exception as e:  # informational only
                ev["coverage"]["extra"] = {"error": repr(e)}
        os.makedirs(os.path.join(ROOT, "evidence"), exist_ok=True)
        json.dump(ev, open(os.path.join(ROOT, "evidence", prop + ".json"), "w"), indent=1)
    if not args.keep:
        shutil.rmtree(outdir, ignore_errors=True)
    if vio_lines:
        return EXIT_VIOLATION
    if harness_errors:
        return EXIT_HARNESS
    return EXIT_OK


def _z3v():
    try:
        import z3
        return z3.get_version_string()
    except Exception:
        return "?"


def _repo_head():
    try:
        h = subprocess.run(["git", "-C", REPO, "rev-parse", "--short", "HEAD"], capture_output=True, text=True).stdout.strip()
        dirty = subprocess.run(["git", "-C", REPO, "status", "--porcelain", "--untracked-files=no"], capture_output=True, text=True).stdout.strip()
        return h + ("+dirty" if dirty else "")
    except Exception:
        return "?"


def do_replay(path):
    rec = json.load(open(path))
    r = replay_batch([dict(module=rec["module"], harness=rec["harness"], args=rec["args"])])[0]
    log("replay %s.%s(%s)" % (rec["module"], rec["harness"], json.dumps(rec["args"])))
    log("  verdict:", registry.CODE_NAMES.get(r["ret"], r["ret"]))
    for k, v in (r["notes"] or {}).items():
        log("  %s: %s" % (k, v))
    if r["exc"]:
        log(r["exc"])
    if r["ret"] == registry.VIOL or r["exc"]:
        log("VIOLATION property=%s replay=%s" % (rec["property"], path))
        return EXIT_VIOLATION
    return EXIT_OK


if __name__ == "__main__":
    sys.exit(main())
