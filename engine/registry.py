"""Harness registry.  Pure Python, importable by python3-vt (symbolic runs) and /venv/bin/python
(concrete replays).  A harness is an ordinary function over the real pypika_tortoise API which
returns one of the verdict codes below; its PEP-316 docstring carries the `pre:` lines (the bound).

    OK     the property's assertion was reached and holds on this path
    VIOL   the assertion was reached and fails            (post-condition is `_ != 0`)
    SKIP   the instance is outside the property's domain (library guard, unsupported combination)
    KNOWN  the assertion fails, and the arguments satisfy the predicate of an entry of
           /verif/known_findings.json (evaluated only on failing paths)
"""
from __future__ import annotations

import inspect
import itertools
import json
import os

OK, VIOL, SKIP, KNOWN = 1, 0, 2, 3
CODE_NAMES = {OK: "OK", VIOL: "VIOL", SKIP: "SKIP", KNOWN: "KNOWN"}

VERIF_ROOT = os.path.dirname(os.path.dirname(os.path.abspath(__file__)))

REGISTRY: dict[str, "Harness"] = {}


class Harness:
    def __init__(self, fn, prop, cubes, bounds, timeout, witness, doc, stubs, functions, per_path):
        self.fn = fn
        self.name = fn.__name__
        self.prop = prop
        self.cubes = cubes or {}
        self.bounds = bounds or {}
        self.timeout = timeout or {}
        self.witness = witness or []
        self.doc = doc or ""
        self.stubs = stubs or []
        self.functions = functions or []
        self.per_path = per_path
        self.module = fn.__module__
        self.sig = inspect.signature(fn)
        self.pre = [
            ln.strip()[6:].strip()
            for ln in (fn.__doc__ or "").splitlines()
            if ln.strip().startswith("bound:")
        ]
        # NB: harness docstrings say `bound:` rather than PEP-316 `pre:` on purpose - CrossHair enforces
        # the contracts of *callees* too (read from source); the contract lives on the generated stub only.

    def tier_cubes(self, tier):
        c = self.cubes
        if callable(c):
            c = c(tier)
        elif c and set(c) <= {"quick", "thorough"}:
            c = c.get(tier, c.get("quick"))
        return {k: list(v) for k, v in (c or {}).items()}

    def tier_bounds(self, tier):
        b = self.bounds
        if b and set(b) <= {"quick", "thorough"}:
            b = b.get(tier, b.get("quick", {}))
        return dict(b or {})

    def tier_timeout(self, tier):
        t = self.timeout
        if isinstance(t, dict):
            return t.get(tier, t.get("quick", 60))
        return t or 60

    def cube_points(self, tier):
        c = self.tier_cubes(tier)
        keys = list(c)
        for combo in itertools.product(*(c[k] for k in keys)):
            yield dict(zip(keys, combo))

    def free_params(self, tier):
        c = self.tier_cubes(tier)
        return [p for p in self.sig.parameters.values() if p.name not in c]


def harness(prop, cubes=None, bounds=None, timeout=None, witness=None, doc=None, stubs=None,
            functions=None, per_path=None):
    def deco(fn):
        REGISTRY[fn.__name__] = Harness(fn, prop, cubes, bounds, timeout, witness, doc, stubs,
                                        functions, per_path)
        return fn

    return deco


# ---------------------------------------------------------------------------------------------
# known findings: predicates are evaluated inside the harness, on failing paths only
# ---------------------------------------------------------------------------------------------
_KNOWN = None


def load_known():
    global _KNOWN
    if _KNOWN is None:
        path = os.path.join(VERIF_ROOT, "known_findings.json")
        _KNOWN = {}
        if os.path.exists(path):
            data = json.load(open(path))
            for e in data.get("findings", []):
                code = compile(e["class"], "<known:%s>" % e.get("id", "?"), "eval")
                _KNOWN.setdefault(e["harness"], []).append((e.get("id", "?"), code))
    return _KNOWN


NOTES: dict = {}


def note(key, value):
    """Remember something for the replay report (no effect on the verdict)."""
    NOTES[key] = value


def verdict(ok, name, **args):
    """OK if `ok`; otherwise KNOWN when a listed known-finding class covers `args`, else VIOL."""
    if ok:
        return OK
    for _id, code in load_known().get(name, ()):
        try:
            hit = eval(code, {"chr": chr, "len": len, "ord": ord, "str": str, "any": any, "all": all}, dict(args))
        except Exception:
            hit = False
        if hit:
            NOTES["known_id"] = _id
            return KNOWN
    return VIOL
