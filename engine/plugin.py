"""CrossHair patch: keep `format(<symbolic int>, "")` symbolic.

CrossHair 0.0.110 realises (enumerates) a symbolic int as soon as it is formatted, which is what
every "{}".format(n) / f"{n}" in pypika_tortoise does.  Python defines format(i, "") == str(i) for
int, and CrossHair's SymbolicInt.__repr__ already builds the decimal digits symbolically, so the
patch routes the empty format spec there.  Contract assumed: format(int, "") == str(int).
"""
from __future__ import annotations


def install():
    import crosshair.core as core
    from crosshair.libimpl import builtinslib as bl

    orig = core._PATCH_REGISTRATIONS.get(format)
    if orig is None or getattr(orig, "_verif_patched", False):
        return

    def _format(obj, format_spec=""):
        with core.NoTracing():
            fast = (
                isinstance(obj, bl.SymbolicInt)
                and isinstance(format_spec, str)
                and not isinstance(format_spec, bl.AnySymbolicStr)
                and format_spec == ""
            )
        if fast:
            return obj.__repr__()
        return orig(obj, format_spec)

    _format._verif_patched = True
    core._PATCH_REGISTRATIONS[format] = _format
