"""Runs one (harness, cube) job under CrossHair: symbolic execution of the real library code with z3
deciding every branch and the post-condition.  Executed inside pool worker processes."""
from __future__ import annotations

import collections
import importlib.util
import os
import sys
import time
import traceback

_INSTALLED = False
Z3STATS = collections.Counter()
CAPTURED: list = []
OUTCOMES = collections.Counter()


def _install():
    """One-time patches of the worker process: z3 statistics, counterexample capture, format() patch."""
    global _INSTALLED
    if _INSTALLED:
        return
    _INSTALLED = True
    import z3

    orig_check = z3.Solver.check

    def check(self, *a, **k):
        t0 = time.perf_counter()
        r = orig_check(self, *a, **k)
        Z3STATS["queries"] += 1
        Z3STATS["time_us"] += int((time.perf_counter() - t0) * 1e6)
        Z3STATS[str(r)] += 1
        return r

    z3.Solver.check = check

    import crosshair.core as core
    import crosshair.core_and_libs  # noqa: F401  (registers the library models)

    orig_msg = core.make_counterexample_message

    def make_counterexample_message(conditions, args, return_val=None):
        msg = orig_msg(conditions, args, return_val)
        try:
            with core.NoTracing():
                reprer = core.context_statespace().extra(core.LazyCreationRepr)
                real = reprer.deep_realize(args)
                CAPTURED.append({k: _plain(v) for k, v in real.arguments.items()})
        except BaseException as e:  # capture must never break the analysis
            CAPTURED.append({"__capture_error__": repr(e)})
        return msg

    core.make_counterexample_message = make_counterexample_message

    # No short-circuiting: CrossHair may skip a callee that carries a contract (its own `hash` patch has one) and
    # continue with an unconstrained symbolic result.  A symbolic int returned from a Python-level __hash__ into a
    # C-level set() raises TypeError, which harnesses that catch library exceptions would misread.  Always call in.
    orig_consider = core.consider_shortcircuit

    def consider_shortcircuit(fn, sig, bound, subconditions, allow_interpretation):
        if allow_interpretation and not os.environ.get("VERIF_ALLOW_SHORTCIRCUIT"):
            return None
        return orig_consider(fn, sig, bound, subconditions, allow_interpretation)

    core.consider_shortcircuit = consider_shortcircuit

    from engine import plugin

    plugin.install()


def _plain(v):
    if isinstance(v, bool):
        return bool(v)
    if isinstance(v, int):
        return int(v)
    if isinstance(v, str):
        return str(v)
    if isinstance(v, float):
        return float(v)
    if v is None:
        return None
    if isinstance(v, (list, tuple)):
        return [_plain(x) for x in v]
    return repr(v)


def load_stub(path):
    name = "stub_" + os.path.basename(path)[:-3]
    spec = importlib.util.spec_from_file_location(name, path)
    mod = importlib.util.module_from_spec(spec)
    sys.modules[name] = mod
    spec.loader.exec_module(mod)
    return mod


def run_job(job):
    """job: dict(stub=path, timeout=float, per_path=float).  Returns a plain dict."""
    t0 = time.perf_counter()
    out = dict(job=job["id"], verdict="ERROR", messages=[], paths=0, counterexample=None)
    try:
        _install()
        from crosshair.core_and_libs import analyze_function, run_checkables
        from crosshair.options import AnalysisKind, AnalysisOptionSet
        from crosshair.statespace import MessageType

        Z3STATS.clear()
        del CAPTURED[:]
        mod = load_stub(job["stub"])
        from engine import registry

        mod._OUTCOMES.clear()
        stats = collections.Counter()
        opts = AnalysisOptionSet(
            analysis_kind=[AnalysisKind.PEP316],
            per_condition_timeout=float(job["timeout"]),
            per_path_timeout=float(job.get("per_path") or 30.0),
            max_uninteresting_iterations=sys.maxsize,
            report_all=True,
            stats=stats,
        )
        checkables = analyze_function(mod.stub, opts)
        if not checkables:
            out["messages"] = ["no conditions found in stub"]
            return out
        msgs = run_checkables(checkables)
        out["paths"] = int(stats.get("num_paths", 0))
        states = [m.state for m in msgs]
        out["messages"] = [(m.state.name, m.message[:2000]) for m in msgs]
        if MessageType.SYNTAX_ERR in states or MessageType.IMPORT_ERR in states:
            out["verdict"] = "ERROR"
        elif any(s in states for s in (MessageType.POST_FAIL, MessageType.EXEC_ERR, MessageType.POST_ERR)):
            out["verdict"] = "COUNTEREXAMPLE"
            cap = [c for c in CAPTURED if "__capture_error__" not in c]
            out["counterexample"] = cap[-1] if cap else None
            out["capture_errors"] = [c for c in CAPTURED if "__capture_error__" in c]
        elif MessageType.PRE_UNSAT in states:
            out["verdict"] = "PRE_UNSAT"
        elif MessageType.CONFIRMED in states:
            out["verdict"] = "CONFIRMED"
        elif MessageType.CANNOT_CONFIRM in states:
            out["verdict"] = "UNKNOWN"
        else:
            out["verdict"] = "ERROR"
        out["outcomes"] = {registry.CODE_NAMES.get(k, str(k)): v for k, v in mod._OUTCOMES.items()}
    except BaseException as e:  # noqa
        out["verdict"] = "ERROR"
        out["messages"] = [("EXC", "".join(traceback.format_exception(type(e), e, e.__traceback__))[-3000:])]
    out["z3_queries"] = int(Z3STATS.get("queries", 0))
    out["z3_s"] = Z3STATS.get("time_us", 0) / 1e6
    out["z3_unknown"] = int(Z3STATS.get("unknown", 0))
    out["wall_s"] = time.perf_counter() - t0
    return out
