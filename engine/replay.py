"""Concrete (no solver) execution of harness instances against the real library.

Run under /venv/bin/python (the interpreter the repository's own test-suite uses):
    replay.py <batch.json>      batch = [{"module":..., "harness":..., "args":{...}, "profile":bool}]
Prints one JSON list of results: {"ret": int|None, "exc": str|None, "notes": {...}, "functions": [...]}
"""
from __future__ import annotations

import importlib
import json
import os
import sys
import traceback

ROOT = os.path.dirname(os.path.dirname(os.path.abspath(__file__)))
REPO = os.environ.get("VERIF_REPO", "/repo")
for p in (ROOT, REPO):
    if p not in sys.path:
        sys.path.insert(0, p)


def _jsonable(v):
    try:
        json.dumps(v)
        return v
    except Exception:
        return repr(v)


def run_one(item):
    from engine import registry

    res = {"ret": None, "exc": None, "notes": {}, "functions": []}
    seen = set()

    def prof(frame, event, arg):
        if event == "call":
            co = frame.f_code
            fn = co.co_filename
            if "pypika_tortoise" in fn:
                seen.add(os.path.basename(os.path.dirname(fn)) + "/" + os.path.basename(fn) + ":" + co.co_qualname
                         if hasattr(co, "co_qualname") else os.path.basename(fn) + ":" + co.co_name)

    try:
        mod = importlib.import_module(item["module"])
        fn = getattr(mod, item["harness"])
        registry.NOTES.clear()
        if item.get("profile"):
            sys.setprofile(prof)
        try:
            r = fn(**item["args"])
        finally:
            sys.setprofile(None)
        res["ret"] = int(r)
    except Exception as e:
        res["exc"] = "".join(traceback.format_exception(type(e), e, e.__traceback__))[-4000:]
    res["notes"] = {k: _jsonable(v) for k, v in registry.NOTES.items()}
    res["functions"] = sorted(seen)
    return res


def main():
    batch = json.load(open(sys.argv[1]))
    out = [run_one(it) for it in batch]
    json.dump(out, sys.stdout)


if __name__ == "__main__":
    main()
