"""C11 - column references are qualified exactly when needed and always by the right name.

Every column reference gets a unique column name, so that it can be located in the rendered text;
the qualifier found in front of it is compared with a reference rule computed from the program
(source shape and clause), not from the builder's state.
"""
from __future__ import annotations

from harness.common import *  # noqa: F401,F403
from harness.snapshot import _NoTracing
from pypika_tortoise import AliasedQuery, Field
from pypika_tortoise import functions as fn

ASSUMPTIONS = [
    "reference rule: a reference is qualified (with the alias if its source has one, else the table name) iff the "
    "statement has a join, several FROM items, a subquery in FROM, UPDATE..FROM/JOIN, or a WHERE that mentions a table "
    "outside its sources - or the reference's own source is aliased; otherwise bare; INSERT column list, SET target, "
    "USING and ON CONFLICT targets are always bare",
    "a CTE reference (AliasedQuery) is modelled by the library as aliased by its own name: both the bare and the "
    "name-qualified form are accepted for its columns",
    "values of DO UPDATE SET may be qualified with the target table (needed to tell them from EXCLUDED.col)",
]

NSHAPE = 13


def pin(v, n):
    for i in range(n):
        if v == i:
            return i
    return n - 1


class Src:
    def __init__(self, obj, qualifier, aliased, cte=False):
        self.obj, self.qualifier, self.aliased, self.cte = obj, qualifier, aliased, cte


def sources(shape):
    """(list of sources, multi?) for a SELECT shape."""
    t = Table("t")
    if shape == 0:
        return [Src(t, "t", False)], False
    if shape == 1:
        x = Table("t", alias="x")
        return [Src(x, "x", True)], False
    if shape == 2:
        s = Table("t", schema="sc")
        return [Src(s, "t", False)], False
    if shape == 3:
        return [Src(t, "t", False), Src(Table("u"), "u", False)], True
    if shape == 4:
        return [Src(t, "t", False), Src(Table("u"), "u", False)], True
    if shape == 5:
        return [Src(t, "t", False), Src(Table("u", alias="y"), "y", True)], True
    if shape == 6:
        sq = QS[0].from_(Table("w")).select(Field("k"), Field("kk")).as_("sq")
        return [Src(t, "t", False), Src(sq, "sq", True)], True
    if shape == 7:
        sq = QS[0].from_(Table("w")).select(Field("k"), Field("kk")).as_("sq")
        return [Src(sq, "sq", True)], True
    if shape == 8:
        return [Src(Table("t", alias="x"), "x", True), Src(Table("t", alias="y"), "y", True)], True
    if shape == 9:
        return [Src(AliasedQuery("cte"), "cte", False, cte=True)], False
    if shape == 10:  # plain table, WHERE mentions an outside table
        return [Src(t, "t", False)], True
    if shape == 11:  # plain table, WHERE mentions an outside, aliased instance of the SAME table through a same-named column
        return [Src(t, "t", False)], True
    if shape == 12:  # plain table, the only outside reference sits deep inside a WHERE criterion (BETWEEN bound, IN member, function argument)
        return [Src(t, "t", False)], True
    raise AssertionError(shape)


def build_select(shape, d, opt):
    """(query, refs) - refs: (column name, source index or 'out', must_be_bare)"""
    Q = QS[d]
    srcs, multi = sources(shape)
    A = srcs[0]
    B = srcs[1] if len(srcs) > 1 else None
    refs = []

    def col(name, s):
        refs.append((name, s, False))
        return Field(name, table=srcs[s].obj)

    if shape == 9:
        q = Q.with_(QS[0].from_(Table("w")).select(Field("c0"), Field("c1")), "cte").from_(A.obj)
    else:
        q = Q.from_(A.obj)
    if shape == 3:
        q = q.from_(B.obj)
    elif shape in (4, 5, 6, 8):
        q = q.join(B.obj).on(col("c8", 0) == col("c9", 1))
    q = q.select(col("c0", 0), fn.Max(col("c1", 0)))
    if B is not None:
        q = q.select(col("c2", 1))
    def foreign(q):
        out = Table("outer")
        refs.append(("c10", "out", False))
        return q.where(col("c11", 0) == Field("c10", table=out))

    def same_table(q):
        # correlated with "t AS o" through column c14 of both; operand order and conjunct order from the options
        o = Table("t", alias="o")
        refs.append(("c14", "same", False))
        own, out = Field("c14", table=srcs[0].obj), Field("c14", table=o)
        crit = (out == own) if opt[3] else (own == out)
        if opt[2]:
            crit = crit & (col("c15", 0) != 3) if opt[3] else (col("c15", 0) != 3) & crit
        return q.where(crit)

    def foreign_nested(q):
        # position of the outside column from (o2, o3): BETWEEN upper bound / BETWEEN lower bound / IN-list member / function argument
        out = Field("c10", table=Table("outer"))
        refs.append(("c10", "out", False))
        own = col("c11", 0)
        if opt[2] and opt[3]:
            return q.where(own.between(0, out))
        if opt[2]:
            return q.where(own.between(out, 9))
        if opt[3]:
            return q.where(own.isin([1, out]))
        return q.where(fn.Coalesce(own, 1) == fn.Coalesce(2, out))

    if shape == 11:
        q = same_table(q)
    if shape == 12:
        q = foreign_nested(q)
    if shape == 10 and opt[3]:
        q = foreign(q)  # the outside reference comes first, purely local criteria follow
    if opt[0]:
        q = q.where(col("c3", 0) > 1)
        if B is not None:
            q = q.where(col("c4", 1) < 5)
    if shape == 10 and not opt[3]:
        q = foreign(q)
    if opt[1]:
        q = q.groupby(col("c5", 0))
        q = q.having(fn.Count(col("c6", len(srcs) - 1)) > 2)
        if opt[3]:
            refs.append(("c12", 0, False))
            q = q.groupby("c12")  # a column given by name belongs to the first FROM item
    if opt[2]:
        q = q.orderby(col("c7", len(srcs) - 1))
        if opt[3]:
            refs.append(("c13", 0, False))
            q = q.orderby("c13")
    return q, refs, srcs, multi


def find_qualifier(sql, q, name):
    """List of qualifiers (None = bare) in front of each occurrence of the quoted column name."""
    out = []
    tok = q + name + q
    i = sql.find(tok)
    while i >= 0:
        # do not match a longer name (c1 vs c10): quoted, so the closing quote settles it
        if i >= 2 and sql[i - 1] == "." and sql[i - 2] == q:
            j = sql.rfind(q, 0, i - 2)
            out.append(sql[j + 1:i - 2])
        else:
            out.append(None)
        i = sql.find(tok, i + len(tok))
    return out


def judge_refs(sql, d, refs, srcs, multi):
    q = qchar(d)
    for name, s, must_bare in refs:
        quals = find_qualifier(sql, q, name)
        if not quals:
            return "reference %s not found" % name
        if s == "same":
            # one occurrence qualified with the statement's own table, one with the outside alias
            if sorted(quals, key=str) != ["o", "t"]:
                return "%s: qualifiers %r, expected ['o', 't']" % (name, quals)
            continue
        for got in quals:
            if s == "out":
                want = ["outer"]
            elif must_bare:
                want = [None]
            else:
                src = srcs[s]
                if src.cte:
                    want = [None, src.qualifier] if not multi else [src.qualifier]
                elif multi or src.aliased:
                    want = [src.qualifier]
                else:
                    want = [None]
            if got not in want:
                return "%s: qualifier %r, expected %r" % (name, got, want)
    return None


@harness(
    prop="C11",
    cubes={"shape": range(NSHAPE), "d": range(ND)},
    bounds={"quick": {}, "thorough": {}},
    timeout={"quick": 120, "thorough": 300},
    witness=[dict(shape=5, d=2, o0=True, o1=True, o2=True, o3=True), dict(shape=0, d=1, o0=True, o1=False, o2=True, o3=False)],
    doc="SELECT statements over 13 source shapes (plain / aliased / schema-qualified table, two FROM items, join with plain "
        "/ aliased table / subquery, FROM subquery, aliased self-join, CTE reference, foreign table in WHERE, aliased outside instance of the same table in WHERE, outside column only as BETWEEN bound / IN member / function argument) x clause "
        "subsets (where, group by + having, order by; o3: outside reference first / columns given by name) x 6 dialect classes; fields in select / on / where / group by / "
        "having / order by",
)
def c11_select(shape: int, d: int, o0: bool, o1: bool, o2: bool, o3: bool) -> int:
    opt = (bool(o0), bool(o1), bool(o2), bool(o3))
    with _NoTracing():
        qy, refs, srcs, multi = build_select(shape, d, opt)
        sql = qy.get_sql(dctx(d))
        why = judge_refs(sql, d, refs, srcs, multi)
        note("sql", sql)
        note("why", why)
    return verdict(why is None, "c11_select", shape=shape, d=d, o0=opt[0], o1=opt[1], o2=opt[2], o3=opt[3])


NDML = 13


def build_dml(kind, d):
    Q = QS[d]
    t, u = Table("t"), Table("u")
    x = Table("t", alias="x")
    refs = []

    def col(name, tbl, qualifier, aliased, bare=False):
        refs.append((name, len(srcs), bare))
        srcs.append(Src(tbl, qualifier, aliased))
        return Field(name, table=tbl)

    srcs = []
    multi = False
    if kind == 0:  # plain UPDATE
        q = Q.update(t).set(col("c0", t, "t", False, True), 1).set("c1", col("c2", t, "t", False)).where(col("c3", t, "t", False) == 2)
    elif kind == 1:  # UPDATE of an aliased table
        q = Q.update(x).set(col("c0", x, "x", True, True), 1).where(col("c3", x, "x", True) == 2)
    elif kind == 2:  # UPDATE ... FROM
        multi = True
        q = (Q.update(t).set(col("c0", t, "t", False, True), col("c1", u, "u", False)).from_(u)
             .where(col("c2", t, "t", False) == col("c3", u, "u", False)))
    elif kind == 3:  # UPDATE ... JOIN
        multi = True
        q = (Q.update(t).join(u).on(col("c4", t, "t", False) == col("c5", u, "u", False))
             .set(col("c0", t, "t", False, True), col("c1", u, "u", False)).where(col("c2", u, "u", False) > 0))
    elif kind == 4:  # INSERT columns
        q = Q.into(t).columns(col("c0", t, "t", False, True), "c9").insert(1, 2)
        refs.append(("c9", 0, True))
    elif kind == 5:  # INSERT ... SELECT
        q = Q.into(t).columns(col("c0", t, "t", False, True)).from_(u).select(col("c1", u, "u", False)).where(col("c2", u, "u", False) == 1)
    elif kind == 6:  # upsert: conflict target, update target, conflict where
        tgt = col("c0", t, "t", False, True) if d != 1 else Field("zz", table=t)  # MySQL has no conflict target
        q = Q.into(t).insert(1, 2).on_conflict(tgt).do_update(col("c1", t, "t", False, True), 5)
    elif kind == 7:  # DELETE
        q = Q.from_(t).delete().where(col("c0", t, "t", False) == 1)
    elif kind == 8:  # join ... USING
        multi = True
        q = Q.from_(t).join(u).using("c0").select(col("c1", t, "t", False), col("c2", u, "u", False))
        refs.append(("c0", 0, True))
    elif kind == 9:  # single-source UPDATE ... RETURNING (PostgreSQL builder)
        if d != 2:
            return None
        q = Q.update(t).set("c9", 1).returning(col("c0", t, "t", False))
        refs.append(("c9", 0, True))
    elif kind == 10:  # INSERT ... RETURNING (PostgreSQL builder)
        if d != 2:
            return None
        q = Q.into(t).insert(1).returning(col("c0", t, "t", False))
    elif kind == 11:  # INSERT ... SELECT with a join + conflict target (always bare)
        if d == 1:
            return None
        multi = True
        q = (Q.into(t).columns("c9").from_(u).join(t).on(col("c1", t, "t", False) == col("c2", u, "u", False))
             .select(col("c3", u, "u", False)).on_conflict(col("c0", t, "t", False, True)).do_nothing())
        refs.append(("c9", 0, True))
    elif kind == 12:  # DISTINCT ON with a join: a field, and a column given by name (first FROM item)
        if d != 2:
            return None
        multi = True
        q = (Q.from_(t).join(u).on(col("c1", t, "t", False) == col("c2", u, "u", False)).select(col("c3", u, "u", False))
             .distinct_on(col("c4", u, "u", False), "c5"))
        refs.append(("c5", 0, False))
    else:
        raise AssertionError(kind)
    return q, refs, srcs, multi


@harness(
    prop="C11",
    cubes={"kind": range(NDML)},
    bounds={"quick": {}, "thorough": {}},
    timeout={"quick": 120, "thorough": 300},
    witness=[dict(kind=2, d=2), dict(kind=4, d=0)],
    doc="UPDATE (plain / aliased / ..FROM / ..JOIN), INSERT (column list, ..SELECT, upsert targets, ..SELECT JOIN + conflict target), DELETE, JOIN..USING, DISTINCT ON with a join x 6 "
        "dialect classes: SET targets, INSERT columns, USING and ON CONFLICT targets bare; other references by the rule",
)
def c11_dml(kind: int, d: int) -> int:
    """
    bound: 0 <= d <= 5
    """
    d = pin(d, 6)
    with _NoTracing():
        built = build_dml(kind, d)
        if built is None:
            return SKIP
        qy, refs, srcs, multi = built
        sql = qy.get_sql(dctx(d))
        why = judge_refs(sql, d, refs, srcs, multi)
        note("sql", sql)
        note("why", why)
    return verdict(why is None, "c11_dml", kind=kind, d=d)
