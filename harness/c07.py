"""C07 - user-supplied names are emitted as single, correctly quoted identifiers.

One symbolic name per instance, placed at one emission site; the probe template says where the
quoted probe stood; the reference quoted form (quote + name with the quote doubled + quote) must
stand at exactly those places and the rest of the statement must be unchanged.
"""
from __future__ import annotations

from harness.common import *  # noqa: F401,F403
from pypika_tortoise import AliasedQuery, Column, Database, Field, Schema
from pypika_tortoise import functions as fn
from pypika_tortoise.terms import Index

ASSUMPTIONS = [
    "reference quoting rule: the dialect's identifier quote around the name, an embedded quote written twice "
    "(SQL standard; MySQL backtick; SQL Server with QUOTED_IDENTIFIER ON)",
    "the empty string is not an identifier in any dialect (and the library treats an empty alias as 'no alias'): names have length >= 1",
    "Oracle cannot represent a double quote inside an identifier at all: those instances are outside the domain (SKIP)",
    "returning('*') is the documented star shorthand, not a column called *",
    "site 21 (FOR UPDATE OF) hashes the name (dict.fromkeys): names there range over the 7-character HASH_ALPHABET only",
]

PROBE = "PrObE"

# sites whose code path hashes the rendered name (set membership) are listed separately, for the evidence only
SITES_FREE = [0, 1, 2, 3, 4, 7, 8, 9, 10, 11, 13, 14, 15, 16, 17, 20, 22, 23, 24, 25, 26, 27, 28, 29]
SITES_HASHED = [5, 6, 12, 18, 19, 21, 30, 31, 32, 33]


_PRIME = [False]


def build(site, d, nm):
    Q = QS[d]
    t = Table("t")
    u = Table("u")
    if site == 0:  # FROM table
        return Q.from_(Table(nm)).select(Field("a"))
    if site == 1:  # schema given as str
        return Q.from_(Table("t", schema=nm)).select(Field("a"))
    if site == 2:  # schema chain Database.Schema.table; the table object was used (hashed, printed) before
        tb = Table("t", schema=Schema("sc", parent=Schema(nm, parent=Database("db"))))
        if _PRIME[0]:
            hash(tb)  # (probe statement only: hashing a symbolic string enumerates it)
        return Q.from_(tb).select(Field("a"))
    if site == 3:  # JOIN table (cross join: no criterion to validate)
        return Q.from_(t).join(Table(nm)).cross().select(Field("a"))
    if site == 4:  # column in SELECT
        return Q.from_(t).select(Field(nm))
    if site == 5:  # column in WHERE   (hashed: _validate_table -> fields_())
        return Q.from_(t).select(Field("a")).where(Field(nm) == 1)
    if site == 6:  # column in ON      (hashed: JoinOn.validate)
        return Q.from_(t).join(u).on(t.a == Field(nm, table=u)).select(Field("a"))
    if site == 7:  # USING
        return Q.from_(t).join(u).using(nm).select(Field("a"))
    if site == 8:  # GROUP BY
        return Q.from_(t).select(Field("a")).groupby(Field(nm))
    if site == 9:  # ORDER BY
        return Q.from_(t).select(Field("a")).orderby(Field(nm))
    if site == 10:  # UPDATE SET target
        return Q.update(t).set(nm, 1)
    if site == 11:  # INSERT column list
        return Q.into(t).columns(nm, "z").insert(1, 2)
    if site == 12:  # RETURNING (PostgreSQL builder only; hashed: _validate_returning_term)
        if d != 2:
            return None
        return Q.into(t).insert(1).returning(nm)
    if site == 13:  # ON CONFLICT target and DO UPDATE target
        return Q.into(t).insert(1, 2).on_conflict(nm).do_update(nm, 5)
    if site == 14:  # table name used as column qualifier
        tn = Table(nm)
        return Q.from_(tn).join(u).cross().select(Field("a")).orderby(tn.b)
    if site == 15:  # table name used as star qualifier
        tn = Table(nm)
        return Q.from_(tn).join(u).cross().select(fn.Count(tn.star))
    if site == 16:  # table alias: definition and use as qualifier
        ta = Table("t").as_(nm)
        return Q.from_(ta).select(Field("a")).orderby(ta.b)
    if site == 17:  # select-item alias (definition)
        return Q.from_(t).select(Field("a").as_(nm))
    if site == 18:  # select-item alias referenced from GROUP BY  (hashed: alias set)
        f = Field("a").as_(nm)
        return Q.from_(t).select(f).groupby(f)
    if site == 19:  # select-item alias referenced from ORDER BY  (hashed: alias set)
        f = fn.Max(Field("a")).as_(nm)
        return Q.from_(t).select(f).orderby(f)
    if site == 20:  # index hints
        return Q.from_(t).select(Field("a")).force_index(nm).use_index(Index(nm))
    if site == 21:  # FOR UPDATE OF (hashed: set of names)
        return Q.from_(t).select(Field("a")).for_update(of=(nm,))
    if site == 22:  # CTE name: definition, FROM reference, qualifier reference
        sub = Q.from_(u).select(Field("k"))
        cte = AliasedQuery(nm)
        return Q.with_(sub, nm).from_(cte).select(cte.k)
    if site == 23:  # DDL column
        return Q.create_table("t").columns(Column(nm, "INT"), Column("z", "INT"))
    if site == 24:  # DDL unique / primary key
        return Q.create_table("t").columns(Column("z", "INT")).unique(nm, "z").primary_key(nm)
    if site == 25:  # DDL period
        return Q.create_table("t").columns(Column("z", "INT")).period_for(nm, nm, "z")
    if site == 26:  # DROP TABLE
        return Q.drop_table(nm)
    if site == 27:  # CREATE TABLE name
        return Q.create_table(nm).columns(Column("z", "INT"))
    if site == 28:  # INSERT / UPDATE target table
        return Q.into(Table(nm)).insert(1)
    if site == 29:
        return Q.update(Table(nm)).set("a", 1)
    if site == 30:  # qualified column in SELECT + WHERE of a join (hashed)
        tn = Table(nm)
        return Q.from_(tn).join(u).on(tn.a == u.a).select(tn.b).where(tn.c == 1)
    if site == 31:  # subquery alias (definition + qualifier; hashed through select())
        sub = Q.from_(u).select(Field("k")).as_(nm)
        return Q.from_(sub).select(sub.k)
    if site == 32:  # set operation: select alias defined in the operands, referenced by the set operation's ORDER BY
        f = Field("a").as_(nm)
        return Q.from_(t).select(f).union(Q.from_(u).select(Field("a").as_(nm))).orderby(f)
    if site == 33:  # set operation ordered by a column name given as a string
        return Q.from_(t).select(Field(nm)).union(Q.from_(u).select(Field(nm))).orderby(nm)
    raise AssertionError(site)


HASH_ALPHABET = "a\"`'. é"


def check(site, d, nm, name):
    q = qchar(d)
    if site == 21:
        # for_update(of=...) de-duplicates the names through a dict: hashing a symbolic string enumerates it, so this
        # site ranges over the strings of a small alphabet (letter, the three quote characters, dot, space, non-ASCII)
        for ch in nm:
            if ch not in HASH_ALPHABET:
                return SKIP
    if d == 5 and q in nm:
        return SKIP
    if site == 12 and nm == "*":
        return SKIP
    if nm == "t" or nm == "u" or nm == "z" or nm == "db":
        # collides with a companion object of the skeleton (self-join auto-alias, duplicate column): another program
        return SKIP
    _PRIME[0] = True
    try:
        stmt_p = build(site, d, PROBE)
    finally:
        _PRIME[0] = False
    if stmt_p is None:
        return SKIP
    parts = stmt_p.get_sql(dctx(d)).split(q + PROBE + q)
    # the companion identifiers of the skeleton (db, t, u, a ...) follow the same dialect: no quote character of another
    # dialect anywhere in the statement (e.g. a schema prefix rendered earlier under another context and kept)
    other = '"' if q == "`" else "`"
    for part in parts:
        if other in part:
            note("sql", q + PROBE + q.join(parts))
            note("why", "an identifier is quoted with another dialect's quote character")
            return verdict(False, name, site=site, d=d, nm=nm)
    stmt = build(site, d, nm)
    out = stmt.get_sql(dctx(d))
    if site in (23, 24, 25, 26, 27, 32, 33) and not (str(stmt) == out):
        # str() of a set operation / DDL statement starts from the default context: it must still follow the dialect of
        # the class the statement was started from
        note("sql", str(stmt))
        note("expected", out)
        return verdict(False, name, site=site, d=d, nm=nm)
    piece = q + nm.replace(q, q + q) + q
    exp = piece.join(parts)
    note("sql", out)
    note("expected", exp)
    # len(parts) == 1 means the probe was not emitted as a quoted identifier anywhere
    return verdict(len(parts) > 1 and out == exp, name, site=site, d=d, nm=nm)


@harness(
    prop="C07",
    cubes={"site": SITES_FREE + SITES_HASHED, "d": range(ND)},
    bounds={"quick": {"L": 2}, "thorough": {"L": 4}},
    timeout={"quick": 120, "thorough": 1800},
    witness=[dict(site=0, d=0, nm='a"b'), dict(site=16, d=1, nm="x`y z"), dict(site=13, d=2, nm="Sel ect"), dict(site=18, d=2, nm="a a"), dict(site=5, d=0, nm='a"')],
    doc="name = any string (all code points) of length 1..L at each of 34 emission sites x 6 dialect classes",
)
def c07_sites(site: int, d: int, nm: str) -> int:
    """
    bound: 1 <= len(nm) <= L
    """
    return check(site, d, nm, "c07_sites")


@harness(
    prop="C07",
    cubes={"site": SITES_FREE + SITES_HASHED, "d": range(ND)},
    bounds={"quick": {"L": 1}, "thorough": {"L": 2}},
    timeout={"quick": 120, "thorough": 900},
    witness=[dict(site=0, d=0, s="x"), dict(site=16, d=1, s="")],
    doc="names that look already quoted: quote character + any string (len<=L) + quote character, at every site x dialect",
)
def c07_wrapped(site: int, d: int, s: str) -> int:
    """
    bound: len(s) <= L
    """
    q = qchar(d)
    return check(site, d, q + s + q, "c07_wrapped")
