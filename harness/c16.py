"""C16 - replace_table replaces every reference and nothing else.

build(T_old).replace_table(T_old, T_new) must render exactly as build(T_new), with the bystander
table's references and the receiver untouched - for every term kind / operand slot and every
clause slot of every statement kind; the new table's name is a symbolic string and the shape of
the (old, new) pair a selector.
"""
from __future__ import annotations

from harness.common import *  # noqa: F401,F403
from harness.snapshot import same_nt, snap_nt
from pypika_tortoise import AliasedQuery, Case, DatePart, Field, JoinType, Not, Tuple
from pypika_tortoise import analytics as an
from pypika_tortoise import functions as fn
from pypika_tortoise.enums import Boolean, Equality
from pypika_tortoise.terms import Array, AtTimezone, Bracket, NestedCriterion, Values

ASSUMPTIONS = [
    "renderings compared under a namespace-forcing context (every field prints its qualifier)",
    "table pair shapes: plain->plain, plain->aliased, aliased->plain, schema-qualified->plain, plain->None; the new "
    "table's name is any string of length 1..L (it may coincide with the old or the bystander name)",
]

NS_CTX = DEFAULT_SQL_CONTEXT.copy(with_namespace=True)


def pair(p, s):
    """(old, new) tables for pair shape p."""
    if p == 0:
        return Table("t"), Table(s)
    if p == 1:
        return Table("t"), Table(s, alias="nn")
    if p == 2:
        return Table("t", alias="tt"), Table(s)
    if p == 3:
        return Table("t", schema="sc"), Table(s)
    return Table("t"), None


def pin_p(p):
    if p == 0:
        return 0
    if p == 1:
        return 1
    if p == 2:
        return 2
    if p == 3:
        return 3
    return 4


def F(tbl, name):
    return Field(name, table=tbl)


def build_term(k, t, o):
    """Term of kind k holding fields of table t (to be replaced) and of the bystander o."""
    if k == 0:
        return F(t, "a")
    if k == 1:
        return Tuple(F(t, "a"), F(o, "b"), 1)
    if k == 2:
        return F(t, "a") == F(o, "b")
    if k == 3:
        return F(o, "b") == F(t, "a")
    if k == 4:
        return F(t, "a").between(1, 2)
    if k == 5:
        return F(o, "c").between(F(t, "a"), F(t, "b"))
    if k == 6:
        return F(t, "a").bitwiseand(3)
    if k == 7:
        return Case().when(F(t, "a") == 1, F(t, "b")).else_(F(t, "c"))
    if k == 8:
        return F(t, "a").isin([1, 2])
    if k == 9:
        return F(o, "c").isin([F(t, "a"), 2])
    if k == 10:
        return fn.Coalesce(F(t, "a"), F(o, "b"), 0)
    if k == 11:
        return NestedCriterion(Equality.eq, Boolean.and_, F(t, "a"), F(t, "b"), F(t, "c"))
    if k == 12:
        return Not(F(t, "a") == 1)
    if k == 13:
        return F(t, "a").isnull()
    if k == 14:
        return F(t, "a") + F(o, "b") * F(t, "c")
    if k == 15:
        return -F(t, "a")
    if k == 16:
        return fn.Extract(DatePart.year, F(t, "a"))
    if k == 17:
        return an.Sum(F(t, "a")).over(F(t, "b")).orderby(F(t, "c"))
    if k == 18:
        return fn.Sum(F(t, "a")).filter(F(t, "b") == 1)
    if k == 19:
        return Array(F(t, "a"), 1)
    if k == 20:
        return Bracket(F(t, "a"))
    if k == 21:
        return F(t, "a").all_()
    if k == 22:
        return AtTimezone(F(t, "a"), "UTC")
    if k == 23:
        return Values(F(t, "a"))
    if k == 24:
        return Field("*", table=t) if t is None else t.star
    if k == 25:
        return F(t, "a").from_to(1, 2)
    if k == 26:
        return fn.Cast(F(t, "a"), "INT")
    if k == 27:
        return F(t, "a") % 2
    if k == 28:
        return (F(t, "a") == 1) & ((F(o, "b") == 2) | (F(t, "c") == 3))
    if k == 29:
        return F(t, "a").like("x%")
    if k == 30:
        return fn.Count(F(t, "a")).distinct()
    if k == 31:
        return F(t, "a").notin([1, 2])
    if k == 32:  # the only reference to the table sits inside a subquery operand of an AND group
        return (F(o, "c") > 1) & F(o, "d").isin(QS[0].from_(t).select(F(t, "a")))
    if k == 33:  # comparison with a subquery
        return F(o, "c") == QS[0].from_(t).select(F(t, "a")).where(F(t, "b") == 1)
    if k == 34:  # function over a subquery and a nested CASE
        return fn.Coalesce(QS[0].from_(t).select(fn.Max(F(t, "a"))), Case().when(F(o, "c") == 1, F(t, "b")).else_(0))
    raise AssertionError(k)


NTERM = 35


def judge(name, X, Y, old, new, ctx, args):
    s0 = snap_nt(X)
    try:
        Z = X.replace_table(old, new)
    except Exception as e:
        note("why", "replace_table raised " + type(e).__name__ + ": " + str(e)[:120])
        return verdict(False, name, **args)
    try:
        got = Z.get_sql(ctx)
        want = Y.get_sql(ctx)
    except Exception as e:
        note("why", "render raised " + type(e).__name__)
        return verdict(False, name, **args)
    note("replaced", got)
    note("rebuilt", want)
    ok = got == want
    why = "" if ok else "replaced object renders differently from the object built with the new table"
    if ok and not same_nt(snap_nt(X), s0):
        ok, why = False, "receiver changed"
    note("why", why)
    return verdict(ok, name, **args)


@harness(
    prop="C16",
    cubes={"k": range(NTERM)},
    bounds={"quick": {"L": 2}, "thorough": {"L": 4}},
    timeout={"quick": 120, "thorough": 900},
    witness=[dict(k=2, p=0, s="n"), dict(k=7, p=1, s="t"), dict(k=14, p=4, s="x")],
    doc="35 term kinds (every operand slot that can hold a field) x 5 table-pair shapes x any new table name (len 1..L)",
)
def c16_terms(k: int, p: int, s: str) -> int:
    """
    bound: 1 <= len(s) <= L and 0 <= p <= 4
    """
    p = pin_p(p)
    old, new = pair(p, s)
    o = Table("o")
    if k == 24 and new is None:
        return SKIP  # a star without a table is a different term
    if k in (32, 33, 34) and new is None:
        return SKIP  # a subquery cannot select FROM no table
    X = build_term(k, old, o)
    Y = build_term(k, new, o)
    return judge("c16_terms", X, Y, old, new, NS_CTX, dict(k=k, p=p, s=s))


def build_stmt(slot, d, t, o):
    """Statement of class d whose clause `slot` refers to table t; o is a bystander that is always present."""
    Q = QS[d]
    base = Q.from_(o).join(Table("j")).cross()
    if slot == 0:  # select list
        return base.select(F(t, "a"), F(o, "b"))
    if slot == 1:  # FROM
        return Q.from_(t).join(Table("j")).cross().select(F(o, "b"))
    if slot == 2:  # JOIN item + ON criterion
        return Q.from_(o).join(t).on(F(t, "a") == F(o, "a")).select(F(o, "b"))
    if slot == 3:  # JOIN USING item
        return Q.from_(o).join(t).using("a").select(F(o, "b"))
    if slot == 4:  # WHERE
        return base.select(F(o, "b")).where(F(t, "a") == 1)
    if slot == 5:  # PREWHERE
        return base.select(F(o, "b")).prewhere(F(t, "a") == 1)
    if slot == 6:  # GROUP BY
        return base.select(F(o, "b")).groupby(F(t, "a"))
    if slot == 7:  # HAVING
        return base.select(F(o, "b")).groupby(F(o, "b")).having(fn.Max(F(t, "a")) > 1)
    if slot == 8:  # ORDER BY
        return base.select(F(o, "b")).orderby(F(t, "a"))
    if slot == 9:  # INSERT target + columns + SELECT source
        return Q.into(t).columns(F(t, "a")).from_(o).select(F(o, "b"))
    if slot == 10:  # INSERT values
        return Q.into(o).insert(F(t, "a"), 1)
    if slot == 11:  # UPDATE target + WHERE
        return Q.update(t).set("x", 1).where(F(t, "a") == 2)
    if slot == 12:  # UPDATE SET target/value
        return Q.update(o).set(F(o, "x"), F(t, "a")).from_(t)
    if slot == 13:  # CTE body
        cte = QS[0].from_(t).select(F(t, "a"))
        return Q.with_(cte, "c").from_(AliasedQuery("c")).select(Field("a"))
    if slot == 14:  # nested subquery in FROM
        sub = QS[0].from_(t).select(F(t, "a")).as_("sq")
        return Q.from_(sub).select(sub.a)
    if slot == 15:  # subquery in WHERE ... IN
        sub = QS[0].from_(t).select(F(t, "a"))
        return base.select(F(o, "b")).where(F(o, "b").isin(sub))
    if slot == 16:  # select star of the table
        return Q.from_(t).join(o).cross().select(t.star if t is not None else Field("*"))
    if slot == 17:  # ON CONFLICT target / DO UPDATE value / conflict WHERE
        return (Q.into(t).insert(1, 2).on_conflict(F(t, "a")).do_update(F(t, "b"), F(t, "c"))
                .where(F(t, "d") == 1))
    if slot == 18:  # RETURNING (PostgreSQL builder)
        if d != 2:
            return None
        return Q.into(t).insert(1).returning(F(t, "a"))
    if slot == 19:  # DISTINCT ON (PostgreSQL builder)
        if d != 2:
            return None
        return Q.from_(t).join(o).cross().select(F(o, "b")).distinct_on(F(t, "a"))
    if slot == 20:  # DELETE
        return Q.from_(t).delete().where(F(t, "a") == 1)
    if slot == 21:  # ON CONFLICT with an expression target
        return Q.into(t).insert(1, 2).on_conflict(fn.Lower(F(t, "a"))).do_nothing()
    if slot == 22:  # window function in the select list, aggregate filter in HAVING
        return (base.select(fn.Max(F(t, "a")), fn.Coalesce(F(t, "b"), F(o, "c")))
                .groupby(F(o, "b")).having(fn.Sum(F(t, "a")) > 1))
    if slot == 23:  # conflict target with its own WHERE + DO UPDATE ... WHERE
        return (Q.into(t).insert(1, 2).on_conflict(F(t, "a")).where(F(t, "e") > 0).do_update(F(t, "b"), F(t, "c") + 1)
                .where(F(t, "d") == 1))
    if slot == 24:  # subquery over the table joined with ON
        sub = QS[0].from_(t).select(F(t, "a")).as_("sq")
        return Q.from_(o).join(sub).on(F(o, "a") == Field("a", table=sub)).select(F(o, "b"))
    if slot == 25:  # subquery over the table joined with USING
        sub = QS[0].from_(t).select(F(t, "a")).as_("sq")
        return Q.from_(o).join(sub).using("a").select(F(o, "b"))
    raise AssertionError(slot)


NSLOT = 26


@harness(
    prop="C16",
    cubes={"slot": range(NSLOT), "d": [0, 2]},
    bounds={"quick": {"L": 1}, "thorough": {"L": 2}},
    timeout={"quick": 300, "thorough": 1500},
    witness=[dict(slot=0, d=0, p=0, s="n"), dict(slot=11, d=2, p=3, s="n")],
    doc="26 clause slots of SELECT / INSERT / UPDATE / DELETE / upsert statements, generic and PostgreSQL builders, x "
        "table-pair shapes 0..3 x any new table name",
)
def c16_statements(slot: int, d: int, p: int, s: str) -> int:
    """
    bound: 1 <= len(s) <= L and 0 <= p <= 3
    """
    p = pin_p(p)
    if slot == 2 or slot == 18:
        s = "nw"  # these builders hash the table (join / RETURNING validation): a symbolic name would be enumerated
    old, new = pair(p, s)
    if s == "o" or s == "j":
        return SKIP  # would collide with a companion table of the skeleton (self-join auto-alias)
    o = Table("o")
    X = build_stmt(slot, d, old, o)
    if X is None:
        return SKIP
    Y = build_stmt(slot, d, new, o)
    return judge("c16_statements", X, Y, old, new, dctx(d), dict(slot=slot, d=d, p=p, s=s))
