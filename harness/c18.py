"""C18 - interval literals encode exactly the requested duration.

The real Interval.__init__/get_sql/trim_pattern.sub run on symbolic ints; the reference reading of
the literal is by unit designator: A_B names the fields A..B of the fixed layout
`Y-M-D h:m:s.u`, separated by that layout's own separators.
"""
from __future__ import annotations

from harness.common import *  # noqa: F401,F403
from pypika_tortoise.terms import Interval

ASSUMPTIONS = [
    "format(int, '') == str(int) (CrossHair patch keeps the decimal digits symbolic)",
    "components >= 1000 and non-int arguments are outside the claim",
]

LABELS = ["YEAR", "MONTH", "DAY", "HOUR", "MINUTE", "SECOND", "MICROSECOND"]
SEPS = ["-", "-", " ", ":", ":", "."]  # separator between field k and k+1

# dialects by template family (reference table from the vendors' documentation)
QUOTE_UNIT_INSIDE = (Dialects.POSTGRESQL, Dialects.REDSHIFT, Dialects.VERTICA)
QUOTE_EXPR_ONLY = (Dialects.ORACLE, Dialects.MYSQL)
ALL_DIALECTS = list(Dialects)


def ctx_for(dialect):
    return DEFAULT_SQL_CONTEXT.copy(dialect=dialect)


def reference(vals, neg, dialect):
    """Expected literal text, from the constructor arguments only."""
    nz = [k for k in range(7) if vals[k] != 0]
    if not nz:
        expr, unit = "0", "DAY"
    else:
        i, j = nz[0], nz[-1]
        expr = str(vals[i])
        for k in range(i + 1, j + 1):
            expr = expr + SEPS[k - 1] + str(vals[k])
        if neg:
            expr = "-" + expr
        unit = LABELS[i] if i == j else LABELS[i] + "_" + LABELS[j]
    if dialect in QUOTE_EXPR_ONLY:
        return "INTERVAL '" + expr + "' " + unit
    return "INTERVAL '" + expr + " " + unit + "'"


@harness(
    prop="C18",
    cubes={"zp": range(128), "di": [4]},  # zero pattern of the seven components; MySQL template
    bounds={"quick": {"N": 99}, "thorough": {"N": 999}},
    timeout={"quick": 240, "thorough": 1500},
    witness=[dict(zp=0b0010100, di=4, y=1, mo=1, d=10, h=1, mi=5, s=1, us=1, neg=False),
             dict(zp=0b1111111, di=4, y=1, mo=20, d=300, h=4, mi=50, s=60, us=7, neg=True)],
    doc="all 7 components, each zero (per cube) or symbolic 1..N, sign of the leading component symbolic; "
        "real Interval.__init__ + get_sql + trim_pattern.sub vs reference reading by unit designator",
    stubs=["CrossHair format(int,'') patch"],
)
def c18_components(zp: int, di: int, y: int, mo: int, d: int, h: int, mi: int, s: int, us: int, neg: bool) -> int:
    """
    bound: 1 <= y <= N and 1 <= mo <= N and 1 <= d <= N and 1 <= h <= N
    bound: 1 <= mi <= N and 1 <= s <= N and 1 <= us <= N
    """
    vals = [y, mo, d, h, mi, s, us]
    for k in range(7):
        if not (zp >> k) & 1:
            vals[k] = 0
    if zp == 0 and neg:
        return SKIP
    args = list(vals)
    if neg:
        # sign on the leading non-zero component
        for k in range(7):
            if args[k] != 0:
                args[k] = -args[k]
                break
    dialect = ALL_DIALECTS[di]
    iv = Interval(years=args[0], months=args[1], days=args[2], hours=args[3], minutes=args[4],
                  seconds=args[5], microseconds=args[6])
    out = iv.get_sql(ctx_for(dialect))
    exp = reference(vals, neg, dialect)
    note("rendered", out)
    note("expected", exp)
    return verdict(out == exp, "c18_components", zp=zp, di=di, y=y, mo=mo, d=d, h=h, mi=mi, s=s, us=us, neg=neg)


@harness(
    prop="C18",
    cubes={"di": range(len(ALL_DIALECTS)), "zp": range(8)},
    bounds={"quick": {"N": 99}, "thorough": {"N": 9999}},
    timeout={"quick": 120, "thorough": 600},
    witness=[dict(di=0, zp=5, d=10, h=3, mi=5, neg=False)],
    doc="every dialect template x (days, hours, minutes) zero-or-symbolic x sign",
    stubs=["CrossHair format(int,'') patch"],
)
def c18_dialects(di: int, zp: int, d: int, h: int, mi: int, neg: bool) -> int:
    """
    bound: 1 <= d <= N and 1 <= h <= N and 1 <= mi <= N
    """
    vals = [0, 0, d if zp & 1 else 0, h if zp & 2 else 0, mi if zp & 4 else 0, 0, 0]
    if zp == 0 and neg:
        return SKIP
    args = list(vals)
    if neg:
        for k in range(7):
            if args[k] != 0:
                args[k] = -args[k]
                break
    dialect = ALL_DIALECTS[di]
    iv = Interval(days=args[2], hours=args[3], minutes=args[4])
    out = iv.get_sql(ctx_for(dialect))
    exp = reference(vals, neg, dialect)
    note("rendered", out)
    note("expected", exp)
    if not (out == exp):
        return verdict(False, "c18_dialects", di=di, zp=zp, d=d, h=h, mi=mi, neg=neg)
    # the same object under a dialect of the other template family, and again under the first one
    other = Dialects.MYSQL if dialect not in QUOTE_EXPR_ONLY else Dialects.POSTGRESQL
    out2 = iv.get_sql(ctx_for(other))
    exp2 = reference(vals, neg, other)
    note("rendered_other", out2)
    note("expected_other", exp2)
    ok = out2 == exp2 and iv.get_sql(ctx_for(dialect)) == exp
    return verdict(ok, "c18_dialects", di=di, zp=zp, d=d, h=h, mi=mi, neg=neg)


USEC_PATTERNS = [0b1000100, 0b1100000, 0b1111000, 0b1000000, 0b1000001]  # d+us, s+us, h+mi+s+us, us, y+us


@harness(
    prop="C18",
    cubes={"di": range(len(ALL_DIALECTS)), "pi": range(len(USEC_PATTERNS))},
    bounds={"quick": {"N": 99}, "thorough": {"N": 999}},
    timeout={"quick": 120, "thorough": 600},
    witness=[dict(di=0, pi=0, a=1, b=1, c=1, us=1, neg=False)],
    doc="every dialect template x 5 zero patterns that end in microseconds (days+us, seconds+us, hours..us, us alone, "
        "years+us), components symbolic 1..N, sign symbolic",
    stubs=["CrossHair format(int,'') patch"],
)
def c18_dialects_usec(di: int, pi: int, a: int, b: int, c: int, us: int, neg: bool) -> int:
    """
    bound: 1 <= a <= N and 1 <= b <= N and 1 <= c <= N and 1 <= us <= N
    """
    zp = USEC_PATTERNS[pi]
    pool = [a, b, c]
    vals = [0, 0, 0, 0, 0, 0, us]
    j = 0
    for k in range(6):
        if (zp >> k) & 1:
            vals[k] = pool[j]
            j += 1
    args = list(vals)
    if neg:
        for k in range(7):
            if args[k] != 0:
                args[k] = -args[k]
                break
    dialect = ALL_DIALECTS[di]
    iv = Interval(years=args[0], months=args[1], days=args[2], hours=args[3], minutes=args[4],
                  seconds=args[5], microseconds=args[6])
    out = iv.get_sql(ctx_for(dialect))
    exp = reference(vals, neg, dialect)
    note("rendered", out)
    note("expected", exp)
    return verdict(out == exp, "c18_dialects_usec", di=di, pi=pi, a=a, b=b, c=c, us=us, neg=neg)


@harness(
    prop="C18",
    cubes={"di": range(len(ALL_DIALECTS)), "kind": [0, 1]},
    bounds={"quick": {"N": 999}, "thorough": {"N": 99999}},
    timeout={"quick": 60, "thorough": 300},
    witness=[dict(di=4, kind=0, n=3), dict(di=5, kind=1, n=-2)],
    doc="quarters / weeks, any non-zero value -N..N, every dialect template",
    stubs=["CrossHair format(int,'') patch"],
)
def c18_quarters_weeks(di: int, kind: int, n: int) -> int:
    """
    bound: -N <= n <= N and n != 0
    """
    dialect = ALL_DIALECTS[di]
    iv = Interval(quarters=n) if kind == 0 else Interval(weeks=n)
    out = iv.get_sql(ctx_for(dialect))
    unit = "QUARTER" if kind == 0 else "WEEK"
    if dialect in QUOTE_EXPR_ONLY:
        exp = "INTERVAL '" + str(n) + "' " + unit
    else:
        exp = "INTERVAL '" + str(n) + " " + unit + "'"
    note("rendered", out)
    note("expected", exp)
    return verdict(out == exp, "c18_quarters_weeks", di=di, kind=kind, n=n)
