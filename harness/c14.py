"""C14 - invalid constructions are rejected with library exceptions; valid ones never are.

Join programs are assembled from selectors (shape of the joined item, which table each criterion
field belongs to, column names, operand order, wrapping); an independent availability rule says
whether the join exception is due.  The other guards are checked in both directions (raises when
it must, does not raise when it must not).
"""
from __future__ import annotations

from harness.common import *  # noqa: F401,F403
from harness.snapshot import _NoTracing
from pypika_tortoise import AliasedQuery, Case, Column, Field
from pypika_tortoise import analytics as an
from pypika_tortoise import functions as fn
from pypika_tortoise.exceptions import CaseException, JoinException, QueryException, RollupException, SetOperationException

ASSUMPTIONS = [
    "availability rule (independent of the builder): a criterion field's table must be == to a FROM item, an earlier "
    "joined item, the item being joined, or a CTE declared with with_(); tables compare by (name, schema, alias)",
    "'documented exception' = the library's own exception classes (JoinException, QueryException, CaseException, "
    "SetOperationException, RollupException) or the AttributeError / TypeError the one-shot guards raise by design",
]

NJ = 6  # shapes of the joined item
NT = 8  # table a criterion field may belong to


def pin(v, n):
    for i in range(n):
        if v == i:
            return i
    return n - 1


def scenario(d, jshape, upd=False):
    """(query-so-far, joined item, table pool, availability flags); upd: UPDATE f ... FROM g instead of SELECT ... FROM f"""
    Q = QS[d]
    f = Table("f")
    e = Table("e")
    cte_body = QS[0].from_(Table("w")).select(Field("x"), Field("y"))
    if upd:
        q = Q.with_(cte_body, "c").update(f).set("x", 1).from_(Table("g")).join(e).on(f.x == e.x)
    else:
        q = Q.with_(cte_body, "c").from_(f).join(e).on(f.x == e.x)
    if jshape == 0:
        j = Table("j")
    elif jshape == 1:
        j = Table("j", alias="jj")
    elif jshape == 2:
        j = Table("j", schema="s")
    elif jshape == 3:
        j = QS[0].from_(Table("k")).select(Field("x"), Field("y")).as_("sq")
    elif jshape == 4:
        j = AliasedQuery("c")  # the declared CTE
    else:
        j = Table("j").for_(Field("sys").between(1, 2))
    pool = [
        (f, True),                                    # 0 FROM table
        (e, True),                                    # 1 earlier join
        (j, True),                                    # 2 the item being joined
        (AliasedQuery("c"), True),                    # 3 declared CTE referenced by name
        (Table("o"), False),                          # 4 outsider
        (Table("j", alias="other"), False),           # 5 same name as the joined table, different alias
        (AliasedQuery("zz"), False),                  # 6 a CTE that was never declared
        (Table("f", schema="arch"), False),           # 7 same bare name as the FROM table, other schema
    ]
    return q, j, pool


def field_of(tbl, col):
    return Field(col, table=tbl)


@harness(
    prop="C14",
    cubes={"d": [0, 2], "jshape": range(NJ)},
    bounds={"quick": {}, "thorough": {}},
    timeout={"quick": 300, "thorough": 900},
    witness=[dict(d=0, jshape=0, lt=0, rt=2, lc=0, rc=0, swap=False, wrap=0, extra=0, upd=False),
             dict(d=2, jshape=1, lt=4, rt=2, lc=0, rc=0, swap=True, wrap=1, extra=0, upd=False),
             dict(d=2, jshape=0, lt=0, rt=2, lc=0, rc=0, swap=False, wrap=0, extra=0, upd=True)],
    doc="join(item).on(criterion): item shape x which table each of the two (three with `extra`) criterion fields "
        "belongs to (8 candidates, 4 of them unavailable) x column names {x,y} x operand order x function wrapping x base "
        "statement (SELECT .. FROM f / UPDATE f .. FROM g): "
        "JoinException raised iff a field's table is unavailable",
)
def c14_join(d: int, jshape: int, lt: int, rt: int, lc: int, rc: int, swap: bool, wrap: int, extra: int, upd: bool) -> int:
    """
    bound: 0 <= lt <= 7 and 0 <= rt <= 7 and 0 <= lc <= 1 and 0 <= rc <= 1 and 0 <= wrap <= 1 and 0 <= extra <= 2
    """
    lt, rt, lc, rc, wrap, extra = pin(lt, NT), pin(rt, NT), pin(lc, 2), pin(rc, 2), pin(wrap, 2), pin(extra, 3)
    extra = (0, 4, 5)[extra]  # no third field / third field of the declared CTE / of the outsider
    swap, upd = bool(swap), bool(upd)
    with _NoTracing():
        try:
            q, j, pool = scenario(d, jshape, upd)
        except Exception as e:
            note("raised", "building the base statement: " + type(e).__name__)
            return verdict(False, "c14_join", d=d, jshape=jshape, lt=lt, rt=rt, lc=lc, rc=rc, swap=swap, wrap=wrap,
                           extra=extra, upd=upd)
        L = field_of(pool[lt][0], "x" if lc == 0 else "y")
        R = field_of(pool[rt][0], "x" if rc == 0 else "y")
        if wrap == 1:
            L = fn.Lower(L)
            R = fn.Coalesce(R, 0)
        crit = (R == L) if swap else (L == R)
        available = pool[lt][1] and pool[rt][1]
        if extra > 0:
            xt = extra - 1
            crit = crit & (field_of(pool[xt][0], "y") > 0)
            available = available and pool[xt][1]
        raised = None
        try:
            out = q.join(j).on(crit)
            (out if upd else out.select(Field("x", table=pool[0][0]))).get_sql(dctx(d))
        except JoinException:
            raised = "JoinException"
        except Exception as e:
            raised = type(e).__name__ + ": " + str(e)[:120]
        note("criterion", crit.get_sql(DEFAULT_SQL_CONTEXT.copy(with_namespace=True)))
        note("available", available)
        note("raised", raised)
        ok = (raised == "JoinException") if not available else (raised is None)
    return verdict(ok, "c14_join", d=d, jshape=jshape, lt=lt, rt=rt, lc=lc, rc=rc, swap=swap, wrap=wrap, extra=extra,
                   upd=upd)


# ---- other guards --------------------------------------------------------------------------------
def expect(fn_, exc_types):
    """(raised?, description)"""
    try:
        fn_()
        return False, None
    except exc_types as e:
        return True, type(e).__name__
    except Exception as e:
        return None, type(e).__name__ + ": " + str(e)[:100]


NG = 16


@harness(
    prop="C14",
    cubes={"g": range(NG)},
    bounds={"quick": {}, "thorough": {}},
    timeout={"quick": 200, "thorough": 600},
    witness=[dict(g=0, d=0, a=1, b=2, flag=False), dict(g=4, d=2, a=0, b=0, flag=True)],
    doc="16 guards, each in both directions: set-operation arity (select counts a,b in 1..3), CASE without WHEN, second "
        "conflict handler in either order, WHERE after DO NOTHING, fieldless conflict WHERE, RETURNING on non-DML / foreign "
        "table (alone or mixed with an own column in one expression) / aggregate, repeated one-shot calls (into, update, delete, create_table, drop_table, primary_key, for_, "
        "for_portion, rollup after MySQL rollup, window frame twice, as_select vs columns)",
)
def c14_guards(g: int, d: int, a: int, b: int, flag: bool) -> int:
    """
    bound: 0 <= d <= 5 and 1 <= a <= 3 and 1 <= b <= 3
    """
    d = pin(d, 6)
    a, b = pin(a - 1, 3) + 1, pin(b - 1, 3) + 1
    flag = bool(flag)
    with _NoTracing():
        Q = QS[d]
        t, u = Table("t"), Table("u")
        cols = [t.a, t.b, t.c]
        must = None  # True: must raise, False: must not raise
        if g == 0:  # set operation arity, checked at render
            q1 = Q.from_(t).select(*cols[:a])
            q2 = Q.from_(u).select(*[u.a, u.b, u.c][:b])
            so = q1.union(q2) if flag else q1.intersect(q2)
            must = a != b
            got = expect(lambda: so.get_sql(dctx(d)), (SetOperationException,))
        elif g == 1:  # CASE needs a WHEN
            c = Case()
            if flag:
                c = c.when(t.a == 1, 2)
            c = c.else_(3)
            must = not flag
            got = expect(lambda: c.get_sql(dctx(d)), (CaseException,))
        elif g == 2:  # second conflict handler, either order
            base = Q.into(t).insert(1, 2).on_conflict("a")
            if flag:
                got = expect(lambda: base.do_nothing().do_update("b", 1), (QueryException,))
            else:
                got = expect(lambda: base.do_update("b", 1).do_nothing(), (QueryException,))
            must = True
        elif g == 3:  # a single handler is fine
            base = Q.into(t).insert(1, 2).on_conflict("a")
            got = expect(lambda: (base.do_nothing() if flag else base.do_update("b", 1)).get_sql(dctx(d)), (QueryException,))
            must = False
        elif g == 4:  # WHERE after DO NOTHING / after DO UPDATE
            base = Q.into(t).insert(1, 2).on_conflict("a")
            if flag:
                got = expect(lambda: base.do_nothing().where(t.a == 1), (QueryException,))
                must = True
            else:
                got = expect(lambda: base.do_update("b", 1).where(t.a == 1).get_sql(dctx(d)), (QueryException,))
                must = False
        elif g == 5:  # fieldless ON CONFLICT ... WHERE
            if flag:
                got = expect(lambda: Q.into(t).insert(1, 2).on_conflict().where(t.a == 1), (QueryException,))
                must = True
            else:
                got = expect(lambda: Q.into(t).insert(1, 2).on_conflict("a").where(t.a == 1).do_update("b", 2).get_sql(dctx(d)), (QueryException,))
                must = False
        elif g == 6:  # RETURNING on non-DML (PostgreSQL builder)
            if d != 2:
                return SKIP
            if flag:
                if a == 2:    # a term without any field: nothing for the validation loop to look at
                    got = expect(lambda: Q.from_(t).select(t.a).returning(1), (QueryException,))
                elif a == 3:  # the star shorthand
                    got = expect(lambda: Q.from_(t).select(t.a).returning("*"), (QueryException,))
                else:
                    got = expect(lambda: Q.from_(t).select(t.a).returning(t.a), (QueryException,))
                must = True
            else:
                got = expect(lambda: Q.into(t).insert(1).returning(t.a).get_sql(dctx(d)), (QueryException,))
                must = False
        elif g == 7:  # RETURNING from a foreign table / aggregate; after a join without criterion
            if d != 2:
                return SKIP
            if a == 1 and b == 2:  # an expression that mixes an own column with a foreign one (either operand order; INSERT / UPDATE)
                if flag:
                    got = expect(lambda: Q.into(t).insert(1).returning(t.a + u.a), (QueryException,))
                else:
                    got = expect(lambda: Q.update(t).set(t.a, 1).returning(u.a * 2 + t.b), (QueryException,))
                must = True
            elif a == 1 and b == 3:  # an expression over own columns only is fine
                got = expect(lambda: (Q.into(t).insert(1).returning(t.a + t.b) if flag
                                      else Q.update(t).set(t.a, 1).returning(t.a * 2 + t.b)).get_sql(dctx(d)), (QueryException,))
                must = False
            elif a == 1:
                if flag:
                    got = expect(lambda: Q.into(t).insert(1).returning(u.a), (QueryException,))
                else:
                    got = expect(lambda: Q.into(t).insert(1).returning(fn.Max(t.a)), (QueryException,))
                must = True
            elif a == 2:  # cross join: the joined table and the update table may be returned
                w = Table("w")
                got = expect(lambda: Q.update(t).join(u).cross().set(t.a, 1).returning(u.a if flag else t.a, 1).get_sql(dctx(d)),
                             (QueryException,))
                must = False
            else:         # ... a third table may not
                w = Table("w")
                got = expect(lambda: Q.update(t).join(u).cross().set(t.a, 1).returning(w.a), (QueryException,))
                must = True
        elif g == 8:  # into / update / delete are one-shot
            if a == 1:
                got = expect(lambda: Q.into(t).into(u) if flag else Q.into(t).insert(1).get_sql(dctx(d)), (AttributeError,))
            elif a == 2:
                got = expect(lambda: Q.update(t).update(u) if flag else Q.update(t).set("a", 1).get_sql(dctx(d)), (AttributeError,))
            else:
                got = expect(lambda: Q.from_(t).delete().delete() if flag else Q.from_(t).delete().get_sql(dctx(d)), (AttributeError,))
            must = flag
        elif g == 9:  # delete / update on a SELECT
            if a == 1:
                got = expect(lambda: Q.from_(t).select(t.a).delete(), (AttributeError,))
            elif a == 2:
                got = expect(lambda: Q.from_(t).select(t.a).update(u), (AttributeError,))
            else:
                got = expect(lambda: Q.from_(t).columns("a"), (AttributeError,))
            must = True
        elif g == 10:  # DDL one-shots
            if a == 1:
                got = expect(lambda: Q.create_table("x").create_table("y") if flag else Q.create_table("x").columns(Column("a", "INT")).get_sql(dctx(d)), (AttributeError,))
            elif a == 2:
                got = expect(lambda: Q.drop_table("x").drop_table("y") if flag else Q.drop_table("x").get_sql(dctx(d)), (AttributeError,))
            else:
                base = Q.create_table("x").columns(Column("a", "INT")).primary_key("a")
                got = expect(lambda: base.primary_key("a") if flag else base.get_sql(dctx(d)), (AttributeError,))
            must = flag
        elif g == 11:  # as_select vs columns
            sub = Q.from_(t).select(t.a)
            if flag:
                got = expect(lambda: Q.create_table("x").columns(Column("a", "INT")).as_select(sub) if a == 1 else Q.create_table("x").as_select(sub).columns(Column("a", "INT")), (AttributeError,))
                must = True
            else:
                got = expect(lambda: Q.create_table("x").as_select(sub).get_sql(dctx(d)), (AttributeError, TypeError))
                must = False
        elif g == 12:  # temporal clauses on tables
            crit = Field("sys").between(1, 2)
            per = Field("p").from_to(1, 2)
            if a == 1:
                got = expect(lambda: Table("x").for_(crit).for_(crit) if flag else Table("x").for_(crit), (AttributeError,))
            elif a == 2:
                got = expect(lambda: Table("x").for_portion(per).for_portion(per) if flag else Table("x").for_portion(per), (AttributeError,))
            else:
                got = expect(lambda: Table("x").for_(crit).for_portion(per) if flag else Table("x").for_portion(per).get_sql(dctx(d)), (AttributeError,))
            must = flag
        elif g == 13:  # rollup after MySQL rollup; MySQL rollup without groups
            base = Q.from_(t).select(t.a).groupby(t.a)
            if a == 1:
                got = expect(lambda: base.rollup(vendor="mysql").rollup(t.b) if flag else base.rollup(vendor="mysql").get_sql(dctx(d)), (AttributeError,))
                must = flag
            else:
                got = expect(lambda: Q.from_(t).select(t.a).rollup(vendor="mysql") if flag else base.rollup(t.b).rollup(t.c).get_sql(dctx(d)), (RollupException,))
                must = flag
        elif g == 14:  # window frame set twice
            w = an.Sum(t.a).over(t.b)
            if flag:
                got = expect(lambda: w.rows(an.Preceding(1)).range(an.Preceding(2)) if a == 1 else w.rows(an.Preceding(1)).rows(an.Preceding(1)), (AttributeError,))
                must = True
            else:
                got = expect(lambda: w.rows(an.Preceding(1), an.Following(2)).get_sql(dctx(d)), (AttributeError,))
                must = False
        else:  # g == 15: join without criterion / using without fields; insert without into
            if a == 1:
                got = expect(lambda: Q.from_(t).join(u).on(None), (JoinException,))
            elif a == 2:
                got = expect(lambda: Q.from_(t).join(u).using(), (JoinException,))
            else:
                got = expect(lambda: Q.from_(t).insert(1), (AttributeError,))
            must = True
        raised, what = got
        note("must_raise", must)
        note("raised", what if raised is not False else None)
        ok = raised is not None and raised == must
    return verdict(ok, "c14_guards", g=g, d=d, a=a, b=b, flag=flag)
