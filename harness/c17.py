"""C17 - equality and hashing of tables, schemas and queries are coherent.

Objects are assembled from selector variables (name, schema form, alias, temporal clause, query
class; alias x FROM list for builders); the solver enumerates every feasible combination and the
equivalence laws, eq => hash, set/dict membership = linear search with ==, stability under
rendering, and completeness of fields_()/tables_ are asserted on each.
"""
from __future__ import annotations

from harness.common import *  # noqa: F401,F403
from harness.snapshot import _NoTracing
from pypika_tortoise import AliasedQuery, Database, Field, Schema
from pypika_tortoise import functions as fn

ASSUMPTIONS = [
    "finite variant tables: name {a,b}; schema {None, 's', ['s'], ('d','s'), Schema('s'), Database('d').s}; alias "
    "{None,'x'}; temporal {none, for_, for_portion}; query class {Query, MySQLQuery}",
    "an unhashable type (Schema defines __eq__ without __hash__) is allowed by Python and not flagged",
]

NSCHEMA = 6


def mk_schema(k):
    if k == 0:
        return None
    if k == 1:
        return "s"
    if k == 2:
        return ["s"]
    if k == 3:
        return ("d", "s")
    if k == 4:
        return Schema("s")
    return getattr(Database("d"), "s")


def mk_table(name_i, schema_k, alias_i, temporal_i, cls_i, derive=False):
    """derive: the alias / temporal clause is added by the builder methods to a table object that was already used
    (hashed, compared, rendered) - the derived copy must not inherit anything computed for the original."""
    name = "a" if name_i == 0 else "b"
    alias = None if alias_i == 0 else "x"
    if derive:
        t = Table(name, schema=mk_schema(schema_k), query_cls=Query if cls_i == 0 else MySQLQuery)
        hash(t), t == t, str(t), {t: 1}
        if alias is not None:
            t = t.as_(alias)
        hash(t)
    else:
        t = Table(name, schema=mk_schema(schema_k), alias=alias, query_cls=Query if cls_i == 0 else MySQLQuery)
    if temporal_i == 1:
        t = t.for_(Field("sys").between("p", "q"))
    elif temporal_i == 2:
        t = t.for_portion(Field("vp").from_to("p", "q"))
    return t


def pin(v, n):
    for i in range(n):
        if v == i:
            return i
    return n - 1


def try_hash(x):
    try:
        return hash(x)
    except TypeError:
        return None


def laws(a, b):
    """None if all pairwise laws hold, else a description."""
    if not (a == a) or (a != a):
        return "not reflexive"
    e = a == b
    if e != (b == a):
        return "not symmetric"
    if (a != b) == e:
        return "!= is not the negation of =="
    ha, hb = try_hash(a), try_hash(b)
    if ha is not None and hb is not None:
        if e and ha != hb:
            return "equal objects with different hashes"
        if (a in {b}) != e:
            return "set membership disagrees with =="
        if (a in {b: 1}) != e:
            return "dict membership disagrees with =="
        if ([a, b].count(a) == 2) != e:
            return "list.count disagrees with =="
    return None


def stable_under_render(a, ctxs):
    h0 = try_hash(a)
    e0 = a == a
    for c in ctxs:
        try:
            a.get_sql(c)
        except Exception:
            pass
    str(a)
    return try_hash(a) == h0 and (a == a) == e0


@harness(
    prop="C17",
    cubes={"s1": range(NSCHEMA), "s2": range(NSCHEMA)},
    bounds={"quick": {}, "thorough": {}},
    timeout={"quick": 300, "thorough": 900},
    witness=[dict(s1=0, s2=1, n1=0, n2=0, a1=0, a2=1, t1=1, t2=0, a3=0, dv=False), dict(s1=1, s2=4, n1=0, n2=0, a1=0, a2=0, t1=1, t2=0, a3=0, dv=False),
             dict(s1=1, s2=1, n1=0, n2=0, a1=1, a2=1, t1=0, t2=0, a3=1, dv=True)],
    doc="all pairs (and triples with a third plain/aliased table) of tables from name x schema form x alias x temporal "
        "clause x query class, built directly or derived (as_, for_) from an already hashed object: reflexive, symmetric, transitive, eq => equal hashes, set/dict membership = ==, stable "
        "under rendering",
)
def c17_tables(s1: int, s2: int, n1: int, n2: int, a1: int, a2: int, t1: int, t2: int, a3: int, dv: bool) -> int:
    """
    bound: 0 <= n1 <= 1 and 0 <= n2 <= 1 and 0 <= a1 <= 1 and 0 <= a2 <= 1 and 0 <= a3 <= 1
    bound: 0 <= t1 <= 2 and 0 <= t2 <= 2
    """
    n1, n2, a1, a2, a3, t1, t2 = pin(n1, 2), pin(n2, 2), pin(a1, 2), pin(a2, 2), pin(a3, 2), pin(t1, 3), pin(t2, 3)
    dv = bool(dv)
    with _NoTracing():  # the selectors are pinned: everything below is concrete
        A = mk_table(n1, s1, a1, t1, 0, dv)
        B = mk_table(n2, s2, a2, t2, 1)  # the other query class
        C = mk_table(n2, s2, a3, 0, 0, dv)
        why = laws(A, B) or laws(B, C) or laws(A, C)
        if why is None and (A == B) and (B == C) and not (A == C):
            why = "not transitive"
        if why is None and not (stable_under_render(A, (dctx(0), dctx(1))) and stable_under_render(B, (dctx(2, True),))):
            why = "== / hash changed by rendering"
        note("A", repr(A.__dict__))
        note("B", repr(B.__dict__))
        note("why", why)
    return verdict(why is None, "c17_tables", s1=s1, s2=s2, n1=n1, n2=n2, a1=a1, a2=a2, t1=t1, t2=t2, a3=a3, dv=dv)


def mk_other(kind, name_i, alias_i, from_i, d):
    """Aliased queries, CTE references, schemas, databases, query builders."""
    name = "a" if name_i == 0 else "b"
    alias = None if alias_i == 0 else "x"
    if kind == 0:
        aq = AliasedQuery(name, None if from_i == 0 else QS[d].from_(Table("t")).select(Field("k")))
        return aq.as_(alias) if alias else aq
    if kind == 1:
        return Schema(name, parent=None if from_i == 0 else Database("d"))
    if kind == 2:
        return Database(name)
    if kind == 3:
        q = QS[d].from_(Table("t" if from_i == 0 else "u")).select(Field("k"))
        if from_i == 2:
            q = q.from_(Table("w"))
        return q.as_(alias) if alias else q
    if kind == 4:
        q = QS[d].from_(Table("t")).select(Field("k")).union(QS[d].from_(Table("u" if from_i == 0 else "w")).select(Field("k")))
        return q.as_(alias) if alias else q
    raise AssertionError(kind)


@harness(
    prop="C17",
    cubes={"k1": range(4), "k2": range(4)},  # (set operations are Terms: their == builds a criterion by design)
    bounds={"quick": {}, "thorough": {}},
    timeout={"quick": 200, "thorough": 600},
    witness=[dict(k1=3, k2=3, n1=0, n2=0, a1=0, a2=0, f1=0, f2=1)],
    doc="pairs of aliased queries / schemas / databases / query builders (alias x FROM list x builder class) / set "
        "operations, also across kinds and against tables",
)
def c17_others(k1: int, k2: int, n1: int, n2: int, a1: int, a2: int, f1: int, f2: int) -> int:
    """
    bound: 0 <= n1 <= 1 and 0 <= n2 <= 1 and 0 <= a1 <= 1 and 0 <= a2 <= 1 and 0 <= f1 <= 2 and 0 <= f2 <= 2
    """
    n1, n2, a1, a2, f1, f2 = pin(n1, 2), pin(n2, 2), pin(a1, 2), pin(a2, 2), pin(f1, 3), pin(f2, 3)
    with _NoTracing():
        A = mk_other(k1, n1, a1, f1, 0)
        B = mk_other(k2, n2, a2, f2, 2)  # the other builder class
        T = Table("a")
        why = laws(A, B) or laws(A, T) or laws(T, B)
        if why is None and hasattr(A, "get_sql") and not stable_under_render(A, (dctx(0), dctx(2, True))):
            why = "== / hash changed by rendering"
        note("A", type(A).__name__ + " " + repr(getattr(A, "alias", None)))
        note("B", type(B).__name__ + " " + repr(getattr(B, "alias", None)))
        note("why", why)
    return verdict(why is None, "c17_others", k1=k1, k2=k2, n1=n1, n2=n2, a1=a1, a2=a2, f1=f1, f2=f2)


def TABLES3(tset=0):
    if tset == 1:  # same name and leaf schema, different parent schema
        return (Table("ta", schema=("p1", "s")), Table("ta", schema=("p2", "s")), Table("ta", schema="s"))
    return (Table("ta"), Table("tb", schema="s"), Table("ta", alias="z"))


def expr(shape, fs):
    a, b, c = fs
    if shape == 0:
        return (a == b) & (c == 1)
    if shape == 1:
        return a + b * c
    if shape == 2:
        return fn.Coalesce(a, b, c)
    if shape == 3:
        return a.isin([b, c])
    if shape == 4:
        return (a > b) | (b < c) | (c == a)
    if shape == 5:
        return a.between(b, c)
    if shape == 6:  # window function: argument, PARTITION BY, ORDER BY
        from pypika_tortoise import analytics as an
        return an.Sum(a).over(b).orderby(c)
    if shape == 7:  # aggregate with FILTER(WHERE ...)
        return fn.Count(a).filter(b == c)
    if shape == 8:  # AT TIME ZONE operand
        from pypika_tortoise.terms import AtTimezone
        return AtTimezone(a, "UTC") == b + c
    if shape == 9:  # CASE: condition, result, default
        from pypika_tortoise import Case
        return Case().when(a == 1, b).else_(c)
    if shape == 10:  # NOT, unary minus, CAST, IS NULL
        from pypika_tortoise import Not
        return Not(-a == fn.Cast(b, "INT")) & c.isnull()
    if shape == 11:  # JSON operators, LIKE, bitwise and, interval arithmetic
        return a.get_json_value("k").like(b) & (c.bitwiseand(1) == 1)
    raise AssertionError(shape)


@harness(
    prop="C17",
    cubes={"shape": range(12), "tset": [0, 1]},
    bounds={"quick": {}, "thorough": {}},
    timeout={"quick": 300, "thorough": 600},
    witness=[dict(shape=0, tset=0, i1=0, i2=1, i3=2, c1=0, c2=0, c3=0), dict(shape=1, tset=1, i1=0, i2=1, i3=2, c1=0, c2=0, c3=0)],
    doc="12 expression shapes (comparison / arithmetic / function / IN / OR chain / BETWEEN / window function / FILTER / AT TIME ZONE / "
        "CASE / NOT, minus, CAST, IS NULL / JSON, LIKE, bitwise) over three fields, each of table {ta, s.tb, ta AS z} or {p1.s.ta, p2.s.ta, s.ta} (selector) and column {x, y} (selector), in "
        "every operand order: fields_() holds every distinct (table, column) reference exactly once and tables_ every table",
)
def c17_collect(shape: int, tset: int, i1: int, i2: int, i3: int, c1: int, c2: int, c3: int) -> int:
    """
    bound: 0 <= i1 <= 2 and 0 <= i2 <= 2 and 0 <= i3 <= 2 and 0 <= c1 <= 1 and 0 <= c2 <= 1 and 0 <= c3 <= 1
    """
    idx = [pin(i1, 3), pin(i2, 3), pin(i3, 3)]
    cols = ["x" if pin(c, 2) == 0 else "y" for c in (c1, c2, c3)]
    with _NoTracing():
        tabs = TABLES3(tset)
        fs = [Field(cols[k], table=tabs[idx[k]]) for k in range(3)]
        e = expr(shape, fs)
        got = list(e.fields_())
        want = []
        for k in range(3):
            key = (idx[k], cols[k])
            if key not in want:
                want.append(key)
        why = None
        for ti, col in want:
            hits = 0
            for g in got:
                if g.name == col and g.table is tabs[ti]:
                    hits += 1
            if hits == 0:
                why = "fields_() misses %s.%s" % (tabs[ti].get_table_name(), col)
        if why is None and len(got) != len(want):
            why = "fields_() has %d entries for %d distinct references" % (len(got), len(want))
        tset = e.tables_
        for ti in set(idx):
            if not any(t is tabs[ti] or t == tabs[ti] for t in tset):
                why = why or "tables_ misses a table"
        note("sql", e.get_sql(DEFAULT_SQL_CONTEXT.copy(with_namespace=True)))
        note("fields", [(g.table.get_table_name(), g.name) for g in got])
        note("why", why)
    return verdict(why is None, "c17_collect", shape=shape, tset=tset, i1=i1, i2=i2, i3=i3, c1=c1, c2=c2, c3=c3)
