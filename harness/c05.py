"""C05 - inlined values are single literal tokens that decode to the original value.

The value is a symbolic leaf; the real builders and get_sql render it at one of the value
positions; the literal is cut out with a probe template and read by the dialect's reference lexer.
"""
from __future__ import annotations

import datetime
import json
import uuid
from enum import Enum

from harness.common import *  # noqa: F401,F403
from oracles.literals import decode, encode, literal_ok
from pypika_tortoise import JSON, Case, Column, Field
from pypika_tortoise import functions as fn
from pypika_tortoise.terms import ValueWrapper

ASSUMPTIONS = [
    "date/time/datetime.isoformat() and UUID.__str__ are stdlib encoders: stubbed by subclasses returning an arbitrary "
    "string over their documented output alphabet ([0-9T:.+-], [0-9a-f-])",
    "repr of finite float / Decimal being one numeric token is a CPython contract, not decided here",
    "true/false accepted as boolean tokens in every dialect",
    "enum member values are modelled by overwriting _value_ of a placeholder member (Enum hashes its values at class creation)",
]

PROBE = "PrObE"
NPOS = 13


def build(pos, d, v):
    """Statement (or DDL builder) of dialect class d holding value v at position `pos`."""
    Q = QS[d]
    t = Table("t")
    if pos == 0:  # select list, explicit wrapper
        return Q.from_(t).select(ValueWrapper(v))
    if pos == 1:  # WHERE comparison
        return Q.from_(t).select(t.a).where(t.b == v)
    if pos == 2:  # IN list
        return Q.from_(t).select(t.a).where(t.b.isin([1, v, "z"]))
    if pos == 3:  # BETWEEN bound
        return Q.from_(t).select(t.a).where(t.b.between("a", v))
    if pos == 4:  # INSERT row
        return Q.into(t).insert(1, v)
    if pos == 5:  # UPDATE SET
        return Q.update(t).set(t.a, v)
    if pos == 6:  # function argument
        return Q.from_(t).select(fn.Concat(t.a, v))
    if pos == 7:  # CASE THEN
        return Q.from_(t).select(Case().when(t.a == 1, v).else_("e"))
    if pos == 8:  # column DEFAULT
        return Q.create_table("t").columns(Column("a", "VARCHAR(9)", default=v))
    if pos == 9:  # upsert DO UPDATE value
        return Q.into(t).insert(1, 2).on_conflict("a").do_update("b", v)
    if pos == 10:  # HAVING
        return Q.from_(t).select(t.a).groupby(t.a).having(fn.Max(t.b) == v)
    if pos == 11:  # JOIN ... ON
        u = Table("u")
        return Q.from_(t).join(u).on((t.a == u.a) & (u.b == v)).select(t.a)
    if pos == 12:  # criterion inside a set-operation operand; rendered through str() (default context + base query's dialect)
        u = Table("u")
        return Q.from_(t).select(t.a).where(t.b == v).union(Q.from_(u).select(u.a).where(u.b != v))
    raise AssertionError(pos)


def sql_of(stmt, d):
    from pypika_tortoise.queries import _SetOperation
    if isinstance(stmt, _SetOperation):
        return str(stmt)
    return stmt.get_sql(dctx(d))


def cut(pos, d, out, probe_lit):
    """The text standing where the probe literal stood; None when the layout differs."""
    tpl = sql_of(build(pos, d, PROBE), d).split(probe_lit)
    if len(tpl) == 3:
        # the value stands twice (set-operation position): the text between the first and the last part must be
        # literal + middle + literal; return the first literal after checking that the second one is identical
        pre, mid, suf = tpl
        if len(out) < len(pre) + len(mid) + len(suf) or not out.startswith(pre) or not out.endswith(suf):
            return None
        body = out[len(pre):len(out) - len(suf)]
        k = body.find(mid)
        while k >= 0:
            a, b = body[:k], body[k + len(mid):]
            if a == b:
                return a
            k = body.find(mid, k + 1)
        return None
    if len(tpl) != 2:
        return None
    pre, suf = tpl
    if len(out) < len(pre) + len(suf) or not out.startswith(pre) or not out.endswith(suf):
        return None
    return out[len(pre):len(out) - len(suf)]


@harness(
    prop="C05",
    cubes={"pos": range(NPOS), "d": range(ND)},
    bounds={"quick": {"L": 3}, "thorough": {"L": 5}},
    timeout={"quick": 120, "thorough": 1200},
    witness=[dict(pos=1, d=2, s="a'b"), dict(pos=5, d=1, s="a" + chr(92)), dict(pos=4, d=0, s="")],
    doc="str value (any code points, len<=L) at 13 value positions x 6 dialect classes; reference lexer must read "
        "the emitted text as one literal decoding to the value",
)
def c05_str(pos: int, d: int, s: str) -> int:
    """
    bound: len(s) <= L
    """
    out = sql_of(build(pos, d, s), d)
    lit = cut(pos, d, out, "'" + PROBE + "'")
    note("sql", out)
    note("literal", lit)
    if lit is None:
        return verdict(False, "c05_str", pos=pos, d=d, s=s)
    return verdict(literal_ok(lit, s, d == 1), "c05_str", pos=pos, d=d, s=s)


@harness(
    prop="C05",
    cubes={"d": [0, 2, 3, 4, 5]},
    bounds={"quick": {"L": 3}, "thorough": {"L": 5}},
    timeout={"quick": 120, "thorough": 1200},
    witness=[dict(d=2, s="it's", interval=False), dict(d=0, s="-06:00", interval=True)],
    doc="the zone string of AT TIME ZONE (any code points, len<=L; plain and INTERVAL form) x the 5 dialect classes that have "
        "the construct: one literal decoding to the value",
)
def c05_zone(d: int, s: str, interval: bool) -> int:
    """
    bound: len(s) <= L
    """
    from pypika_tortoise.terms import AtTimezone
    t = Table("t")
    interval = bool(interval)
    out = QS[d].from_(t).select(AtTimezone(t.a, s, interval=interval)).get_sql(dctx(d))
    tpl = QS[d].from_(t).select(AtTimezone(t.a, PROBE, interval=interval)).get_sql(dctx(d)).split("'" + PROBE + "'")
    note("sql", out)
    if len(tpl) != 2 or not out.startswith(tpl[0]) or not out.endswith(tpl[1]) or len(out) < len(tpl[0]) + len(tpl[1]):
        return verdict(False, "c05_zone", d=d, s=s, interval=interval)
    lit = out[len(tpl[0]):len(out) - len(tpl[1])]
    note("literal", lit)
    return verdict(literal_ok(lit, s, False), "c05_zone", d=d, s=s, interval=interval)


@harness(
    prop="C05",
    cubes={"d": range(ND), "d0": range(ND)},
    bounds={"quick": {"L": 2}, "thorough": {"L": 4}},
    timeout={"quick": 120, "thorough": 1200},
    witness=[dict(d=1, d0=0, s="a" + chr(92), how=0), dict(d=0, d0=1, s="'", how=1)],
    doc="one wrapped constant object used in a statement of dialect class d0 first (rendered / printed) and then in a "
        "statement of class d: the second literal follows d's rules (str value, len<=L)",
)
def c05_reuse(d: int, d0: int, s: str, how: int) -> int:
    """
    bound: len(s) <= L and 0 <= how <= 1
    """
    t = Table("t")
    w = ValueWrapper(s)
    first = QS[d0].from_(t).select(t.a).where(t.b == w)
    if how == 0:
        first.get_sql(dctx(d0))
    else:
        str(first)
    out = QS[d].from_(t).select(t.a).where(t.b == w).get_sql(dctx(d))
    lit = cut(1, d, out, "'" + PROBE + "'")
    note("sql", out)
    note("literal", lit)
    if lit is None:
        return verdict(False, "c05_reuse", d=d, d0=d0, s=s, how=how)
    return verdict(literal_ok(lit, s, d == 1), "c05_reuse", d=d, d0=d0, s=s, how=how)


# ---- stubbed stdlib encoders ---------------------------------------------------------------
class _Date(datetime.date):
    def __new__(cls, text):
        o = datetime.date.__new__(cls, 2000, 1, 2)
        o._text = text
        return o

    def isoformat(self, *a, **k):
        return self._text


class _DateTime(datetime.datetime):
    def __new__(cls, text):
        o = datetime.datetime.__new__(cls, 2000, 1, 2, 3, 4, 5)
        o._text = text
        return o

    def isoformat(self, *a, **k):
        return self._text


class _Time(datetime.time):
    def __new__(cls, text):
        o = datetime.time.__new__(cls, 3, 4, 5)
        o._text = text
        return o

    def isoformat(self, *a, **k):
        return self._text

    def replace(self, *a, **k):  # contract: same wall-clock text without the offset suffix
        return self


class _UUID(uuid.UUID):
    def __init__(self, text):
        uuid.UUID.__init__(self, int=5)
        object.__setattr__(self, "_text", text)

    def __str__(self):
        return self._text


class _E(Enum):
    A = "placeholder"


ISO_ALPHABET = "0123456789T:.+-"
HEX_ALPHABET = "0123456789abcdef-"


def in_alphabet(s, alphabet):
    for c in s:
        if c not in alphabet:
            return False
    return True


@harness(
    prop="C05",
    cubes={"kind": range(5), "pos": [0, 1, 4, 5], "d": range(ND)},
    bounds={"quick": {"L": 2}, "thorough": {"L": 4}},
    timeout={"quick": 120, "thorough": 900},
    witness=[dict(kind=0, pos=1, d=1, s="1-2"), dict(kind=3, pos=4, d=2, s="ab"), dict(kind=4, pos=5, d=1, s="x'")],
    doc="date/datetime/time/UUID (stubbed encoders over their documented alphabets) and str-valued enum members "
        "(any text) at 4 positions x 6 dialects",
    stubs=["date/datetime/time .isoformat()", "time.replace()", "UUID.__str__", "Enum._value_"],
)
def c05_encoded(kind: int, pos: int, d: int, s: str) -> int:
    """
    bound: len(s) <= L
    """
    if kind == 0:
        if not in_alphabet(s, ISO_ALPHABET):
            return SKIP
        v = _Date(s)
    elif kind == 1:
        if not in_alphabet(s, ISO_ALPHABET):
            return SKIP
        v = _DateTime(s)
    elif kind == 2:
        if not in_alphabet(s, ISO_ALPHABET):
            return SKIP
        v = _Time(s)
    elif kind == 3:
        if not in_alphabet(s, HEX_ALPHABET):
            return SKIP
        v = _UUID(s)
    else:
        v = _E.A
        old = v._value_
        v._value_ = s
    try:
        out = sql_of(build(pos, d, v), d)
    finally:
        if kind == 4:
            _E.A._value_ = old
    lit = cut(pos, d, out, "'" + PROBE + "'")
    note("sql", out)
    note("literal", lit)
    if lit is None:
        return verdict(False, "c05_encoded", kind=kind, pos=pos, d=d, s=s)
    return verdict(literal_ok(lit, s, d == 1), "c05_encoded", kind=kind, pos=pos, d=d, s=s)


# ---- JSON-serialisable containers -----------------------------------------------------------
def json_texts(value):
    return (json.dumps(value), json.dumps(value, separators=(",", ":")), json.dumps(value, ensure_ascii=False),
            json.dumps(value, ensure_ascii=False, separators=(",", ":")))


@harness(
    prop="C05",
    cubes={"shape": range(3), "via": [0, 1], "pos": [1, 5], "d": range(ND)},
    bounds={"quick": {"L": 1}, "thorough": {"L": 2}},
    timeout={"quick": 150, "thorough": 1800},
    witness=[dict(shape=0, via=0, pos=1, d=2, s="ab"), dict(shape=1, via=0, pos=5, d=1, s="a")],
    doc="dict/list with a symbolic string leaf (printable ASCII, TAB, LF: CrossHair's json.dumps model enumerates "
        "\\uXXXX escapes code point by code point), via ValueWrapper (real json.dumps) and via the JSON term; the SQL "
        "literal must be one token whose decoded text is a json.dumps rendering of the value",
)
def c05_json(shape: int, via: int, pos: int, d: int, s: str) -> int:
    """
    bound: len(s) <= L
    bound: all((32 <= ord(c) < 127) or c == chr(10) or c == chr(9) for c in s)
    """
    if shape == 0:
        value = {"k": s}
        pvalue = {"k": PROBE}
    elif shape == 1:
        value = [1, s]
        pvalue = [1, PROBE]
    else:
        value = {"k": [True, None, s]}  # (a symbolic dict *key* would be hashed, i.e. enumerated)
        pvalue = {"k": [True, None, PROBE]}
    if via == 1:
        v, pv = JSON(value), JSON(pvalue)
    else:
        # explicit wrapper: a bare list passed to a builder means an SQL array, not a JSON constant
        v, pv = ValueWrapper(value), ValueWrapper(pvalue)
    out = sql_of(build(pos, d, v), d)
    sql_p = sql_of(build(pos, d, pv), d)
    # locate the literal: the quoted span of the probe rendering that contains the probe
    idx = sql_p.find(PROBE)
    if idx < 0:
        return SKIP
    a = sql_p.rfind("'", 0, idx)
    if a < 0:
        return SKIP
    b = sql_p.find("'", idx)
    pre, suf = sql_p[:a], sql_p[b + 1:]
    note("sql", out)
    if len(out) < len(pre) + len(suf) or not out.startswith(pre) or not out.endswith(suf):
        return verdict(False, "c05_json", shape=shape, via=via, pos=pos, d=d, s=s)
    lit = out[len(pre):len(out) - len(suf)]
    note("literal", lit)
    # accepted JSON texts, tried lazily (the first one is what a json.dumps-based encoder produces)
    mysql = d == 1
    ok = literal_ok(lit, json.dumps(value), mysql)
    if not ok:
        ok = literal_ok(lit, json.dumps(value, separators=(",", ":")), mysql)
    if not ok:
        ok = literal_ok(lit, json.dumps(value, ensure_ascii=False), mysql)
    if not ok:
        ok = literal_ok(lit, json.dumps(value, ensure_ascii=False, separators=(",", ":")), mysql)
    return verdict(ok, "c05_json", shape=shape, via=via, pos=pos, d=d, s=s)


# ---- number-like kinds ----------------------------------------------------------------------
@harness(
    prop="C05",
    cubes={"pos": range(NPOS), "d": range(ND)},
    bounds={"quick": {"N": 999}, "thorough": {"N": 99999}},
    timeout={"quick": 60, "thorough": 300},
    witness=[dict(pos=1, d=0, kind=0, n=-7, b=False), dict(pos=5, d=3, kind=1, n=0, b=True),
             dict(pos=4, d=1, kind=2, n=0, b=False)],
    doc="int (-N..N), bool, None at every position x dialect: emitted text is str(int) / the dialect's boolean "
        "keyword (true/false; 1/0 where the SQLite wrapper applies) / null",
)
def c05_scalar(pos: int, d: int, kind: int, n: int, b: bool) -> int:
    """
    bound: 0 <= kind <= 2
    bound: -N <= n <= N
    """
    marker = 7731
    tpl = sql_of(build(pos, d, marker), d).split(str(marker))
    if len(tpl) != 2:
        return SKIP
    pre, suf = tpl
    if kind == 0:
        v = n
        exp = [str(n)]
    elif kind == 1:
        v = b
        exp = ["true", "TRUE"] if b else ["false", "FALSE"]
        if d == 3:
            exp = exp + (["1"] if b else ["0"])
    else:
        if pos == 9 or pos == 8:
            return SKIP  # do_update(value=None) means EXCLUDED.col; Column(default=None) means no default
        v = None
        exp = ["null", "NULL"]
    out = sql_of(build(pos, d, v), d)
    note("sql", out)
    if len(out) < len(pre) + len(suf) or not out.startswith(pre) or not out.endswith(suf):
        return verdict(False, "c05_scalar", pos=pos, d=d, kind=kind, n=n, b=b)
    lit = out[len(pre):len(out) - len(suf)]
    note("literal", lit)
    ok = False
    for e in exp:
        if lit == e:
            ok = True
    return verdict(ok, "c05_scalar", pos=pos, d=d, kind=kind, n=n, b=b)


@harness(
    prop="C05",
    cubes={"mysql": [0, 1]},
    bounds={"quick": {"L": 3}, "thorough": {"L": 5}},
    timeout={"quick": 200, "thorough": 1200},
    witness=[dict(mysql=1, s="a'" + chr(92))],
    doc="oracle lemma: reference decoder inverts reference encoder (justifies the canonical-form fast path of literal_ok)",
)
def c05_oracle_lemma(mysql: int, s: str) -> int:
    """
    bound: len(s) <= L
    """
    dec = decode(encode(s, mysql == 1), mysql == 1)
    return OK if (dec is not None and dec == s) else VIOL


class _SE(str, Enum):
    PLAIN = "plain"
    QUOTE = "it's"
    BACK = "back" + chr(92) + "slash"
    STAR = "*"


@harness(
    prop="C05",
    cubes={"pos": range(NPOS)},
    bounds={"quick": {}, "thorough": {}},
    timeout={"quick": 60, "thorough": 120},
    witness=[dict(pos=1, d=2, m=1)],
    doc="members of a str-mixin enum (class E(str, Enum)) with quote / backslash / star values at every position x dialect: "
        "the literal decodes to the member's value",
)
def c05_str_enum(pos: int, d: int, m: int) -> int:
    """
    bound: 0 <= d <= 5 and 0 <= m <= 3
    """
    from harness.snapshot import _NoTracing
    dd = 0
    for i in range(6):
        if d == i:
            dd = i
    mm = 0
    for i in range(4):
        if m == i:
            mm = i
    with _NoTracing():
        member = list(_SE)[mm]
        out = sql_of(build(pos, dd, member), dd)
        lit = cut(pos, dd, out, "'" + PROBE + "'")
        note("sql", out)
        note("literal", lit)
        ok = lit is not None and literal_ok(lit, member.value, dd == 1)
    return verdict(ok, "c05_str_enum", pos=pos, d=dd, m=mm)
