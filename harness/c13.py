"""C13 - statements are well-formed and independent of the order of commuting calls.

A statement program is a list of clause-setting calls.  Selectors choose which calls are present
(all / one dropped / two dropped) and how they are ordered (transposition of any two positions,
reversal, rotations); calls addressing the same clause keep their relative order (they
accumulate in call order by definition).  Every ordering must give the canonical SQL; the
canonical SQL must have its top-level clauses at most once and in grammatical order, balanced
brackets and quotes; incomplete builders must render the empty string.
"""
from __future__ import annotations

from harness.common import *  # noqa: F401,F403
from harness.snapshot import _NoTracing
from pypika_tortoise import Column, Field, Order
from pypika_tortoise import functions as fn
from pypika_tortoise.queries import CreateQueryBuilder, DropQueryBuilder

ASSUMPTIONS = [
    "pairs that do not commute by the API's own definition are not permuted against each other: select vs into "
    "(SELECT..INTO vs INSERT..SELECT), where vs on_conflict/do_update (routing of where), select('*') vs other selects, "
    "from_ vs groupby(str)/orderby(str) (they resolve against the first FROM item); the statement's entry call "
    "(from_/into/update/create_table) stays first",
    "calls that address the same clause keep their relative order (accumulation in call order is part of the property)",
    "acceptance by a SQLite engine's parser is not applicable (engine)",
]


def pin(v, n):
    for i in range(n):
        if v == i:
            return i
    return n - 1


# ---- programs: (group label, call) ---------------------------------------------------------------
def program(kind, d):
    Q = QS[d]
    t, u = Table("t"), Table("u")
    if kind == 0:  # SELECT
        base = lambda: Q.from_(t)  # noqa: E731
        calls = [
            ("select", lambda q: q.select(t.a)),
            ("select", lambda q: q.select(fn.Max(t.b).as_("m"))),
            ("join", lambda q: q.join(u).on(t.a == u.a)),
            ("where", lambda q: q.where(t.a > 1)),
            ("where", lambda q: q.where(u.b < 5)),
            ("groupby", lambda q: q.groupby(t.a)),
            ("having", lambda q: q.having(fn.Count(t.c) > 1)),
            ("orderby", lambda q: q.orderby(t.a)),
            ("orderby", lambda q: q.orderby(t.b, order=Order.desc)),
            ("limit", lambda q: q.limit(5)),
            ("offset", lambda q: q.offset(2)),
            ("distinct", lambda q: q.distinct()),
            ("for_update", lambda q: q.for_update()),
            ("index", lambda q: q.force_index("i1")),
        ]
        need = {0}
    elif kind == 1:  # INSERT ... VALUES with upsert
        base = lambda: Q.into(t)  # noqa: E731
        calls = [
            ("columns", lambda q: q.columns("a", "b")),
            ("insert", lambda q: q.insert(1, 2)),
            ("insert", lambda q: q.insert(3, 4)),
            ("on_conflict", lambda q: q.on_conflict("a")),
            ("do_update", lambda q: q.do_update("b", 5)),
            ("do_update", lambda q: q.do_update("a")),
        ]
        need = {1}
    elif kind == 2:  # UPDATE
        base = lambda: Q.update(t)  # noqa: E731
        calls = [
            ("set", lambda q: q.set(t.a, 1)),
            ("set", lambda q: q.set(t.b, 2)),
            ("where", lambda q: q.where(t.c == 3)),
            ("where", lambda q: q.where(t.d == 4)),
            ("from", lambda q: q.from_(u)),
            ("orderby", lambda q: q.orderby(t.a)),
            ("limit", lambda q: q.limit(7)),
        ]
        need = {0}
    elif kind == 3:  # CREATE TABLE
        base = lambda: Q.create_table("x")  # noqa: E731
        calls = [
            ("columns", lambda q: q.columns(Column("a", "INT"))),
            ("columns", lambda q: q.columns(Column("b", "INT", nullable=False, default=0))),
            ("unique", lambda q: q.unique("a")),
            ("unique", lambda q: q.unique("a", "b")),
            ("primary_key", lambda q: q.primary_key("a")),
            ("period_for", lambda q: q.period_for("p", "s", "e")),
            ("temporary", lambda q: q.temporary()),
            ("unlogged", lambda q: q.unlogged()),
            ("if_not_exists", lambda q: q.if_not_exists()),
            ("versioning", lambda q: q.with_system_versioning()),
        ]
        need = {0}
    elif kind == 4:  # DELETE
        base = lambda: Q.from_(t)  # noqa: E731
        calls = [
            ("delete", lambda q: q.delete()),
            ("where", lambda q: q.where(t.a == 1)),
            ("where", lambda q: q.where(t.b == 2)),
            ("orderby", lambda q: q.orderby(t.a)),
            ("limit", lambda q: q.limit(3)),
        ]
        need = {0}
    elif kind == 5:  # INSERT ... SELECT
        base = lambda: Q.into(t)  # noqa: E731
        calls = [
            ("columns", lambda q: q.columns("a")),
            ("from", lambda q: q.from_(u)),
            ("select", lambda q: q.select(u.a)),
            ("where", lambda q: q.where(u.b == 1)),
            ("orderby", lambda q: q.orderby(u.a)),
        ]
        need = {2}
    elif kind == 6:  # INSERT ... SELECT started from an empty builder: from_() and into() must commute
        base = lambda: Q._builder()  # noqa: E731
        calls = [
            ("into_select", lambda q: q.into(t)),          # (into before select: same group => order kept)
            ("from", lambda q: q.from_(u)),
            ("into_select", lambda q: q.select(u.a)),
            ("orderby", lambda q: q.orderby(u.a)),
            ("distinct", lambda q: q.distinct()),
        ]
        need = {0, 1, 2}
    elif kind == 7:  # correlated sub-select: one WHERE mentions a table outside the sources, one is purely local
        outer = Table("outer")
        base = lambda: Q.from_(t)  # noqa: E731
        calls = [
            ("select", lambda q: q.select(t.a)),
            ("where_foreign", lambda q: q.where(t.owner == outer.id)),
            ("where_local", lambda q: q.where(t.flag == 1)),
            ("orderby", lambda q: q.orderby(t.a)),
            ("limit", lambda q: q.limit(2)),
        ]
        need = {0}
    elif kind == 8:  # GROUP BY ... WITH ROLLUP (MySQL form) + HAVING: the modifier belongs to the GROUP BY list
        base = lambda: Q.from_(t).groupby(t.a).rollup(vendor="mysql")  # noqa: E731
        calls = [
            ("select", lambda q: q.select(t.a)),
            ("select", lambda q: q.select(fn.Sum(t.b))),
            ("having", lambda q: q.having(fn.Count(t.c) > 1)),
            ("where", lambda q: q.where(t.d == 1)),
            ("orderby", lambda q: q.orderby(t.a)),
        ]
        need = {0}
    elif kind == 9:  # GROUP BY ... WITH TOTALS: with_totals() before or after groupby()
        base = lambda: Q.from_(t)  # noqa: E731
        calls = [
            ("select", lambda q: q.select(t.a)),
            ("groupby", lambda q: q.groupby(t.a)),
            ("with_totals", lambda q: q.with_totals()),
            ("having", lambda q: q.having(fn.Count(t.c) > 1)),
            ("orderby", lambda q: q.orderby(t.a)),
        ]
        need = {0, 1, 2}
    else:
        raise AssertionError(kind)
    return base, calls, need


def sort_conjuncts(sql):
    """The WHERE clause's AND operands in sorted order (two where() calls accumulate in call order; which of them
    came first must not change anything else)."""
    i = sql.find(" WHERE ")
    if i < 0:
        return sql
    j = len(sql)
    for kw in (" GROUP BY ", " ORDER BY ", " LIMIT ", " OFFSET ", " FETCH NEXT ", " FOR UPDATE"):
        k = sql.find(kw, i)
        if 0 <= k < j:
            j = k
    parts = sorted(sql[i + 7:j].split(" AND "))
    return sql[:i + 7] + " AND ".join(parts) + sql[j:]


NKIND = 10


def orderings(n):
    """(description, permutation) list: identity, reversal, rotations, all transpositions."""
    out = [("id", list(range(n))), ("rev", list(range(n - 1, -1, -1)))]
    for k in range(1, n):
        out.append(("rot%d" % k, [(i + k) % n for i in range(n)]))
    for i in range(n):
        for j in range(i + 1, n):
            p = list(range(n))
            p[i], p[j] = p[j], p[i]
            out.append(("swap%d_%d" % (i, j), p))
    return out


def restore_groups(order, calls):
    """Keep the relative order of calls that address the same clause."""
    groups = {}
    for pos, idx in enumerate(order):
        groups.setdefault(calls[idx][0], []).append(pos)
    out = list(order)
    for label, positions in groups.items():
        members = sorted(out[p] for p in positions)
        for p, m in zip(positions, members):
            out[p] = m
    return out


def run(base, calls, order):
    q = base()
    for idx in order:
        q = calls[idx][1](q)
    return q


CLAUSES = ["WITH ROLLUP", "WITH TOTALS", "WITH", "SELECT", "INSERT", "UPDATE", "DELETE", "CREATE", "INTO", "SET", "VALUES", "FROM", "FORCE INDEX",
           "USE INDEX", "JOIN", "PREWHERE", "WHERE", "GROUP BY", "HAVING", "ORDER BY", "LIMIT", "OFFSET", "FETCH NEXT",
           "FOR UPDATE", "ON CONFLICT", "ON DUPLICATE KEY UPDATE", "DO UPDATE SET", "RETURNING"]
PAGINATION = ("LIMIT", "OFFSET", "FETCH NEXT")


def top_level_keywords(sql):
    """Clause keywords at bracket depth 0, outside quotes; None when brackets/quotes do not balance."""
    depth = 0
    i, n = 0, len(sql)
    out = []
    while i < n:
        c = sql[i]
        if c == "'" or c == '"' or c == "`":
            j = sql.find(c, i + 1)
            if j < 0:
                return None
            i = j + 1
            continue
        if c == "(":
            depth += 1
        elif c == ")":
            depth -= 1
            if depth < 0:
                return None
        elif depth == 0 and (i == 0 or sql[i - 1] == " "):
            for kw in CLAUSES:
                if sql.startswith(kw, i) and (i + len(kw) == n or sql[i + len(kw)] in " ("):
                    out.append(kw)
                    i += len(kw) - 1
                    break
        i += 1
    if depth != 0:
        return None
    return out


def well_formed(sql, kind, d):
    kws = top_level_keywords(sql)
    if kws is None:
        return "unbalanced brackets or quotes"
    # order classes per statement kind
    if kind in (8, 9):
        kind = 0
    if kind == 0:
        order = ["WITH", "SELECT", "FROM", "FORCE INDEX", "USE INDEX", "JOIN", "PREWHERE", "WHERE", "GROUP BY", "WITH TOTALS",
                 "WITH ROLLUP", "HAVING",
                 "ORDER BY", "P", "FOR UPDATE"]
    elif kind == 1:
        order = ["INSERT", "INTO", "VALUES", "ON CONFLICT", "ON DUPLICATE KEY UPDATE", "DO UPDATE SET", "WHERE", "RETURNING"]
    elif kind == 2:
        order = (["UPDATE", "JOIN", "SET", "FROM", "WHERE", "ORDER BY", "P", "RETURNING"] if d not in (2, 3)
                 else ["UPDATE", "SET", "FROM", "JOIN", "WHERE", "ORDER BY", "P", "RETURNING"])
    elif kind == 3:
        order = ["CREATE"]
    elif kind == 4:
        order = ["DELETE", "FROM", "JOIN", "WHERE", "ORDER BY", "P"]
    else:
        order = ["INSERT", "INTO", "SELECT", "FROM", "JOIN", "WHERE", "ORDER BY", "P"]
    if kind == 6:
        kind = 5
    if kind == 7:
        kind = 0
    last = -1
    seen = set()
    for kw in kws:
        cls = "P" if kw in PAGINATION else kw
        if cls == "WITH" or (kind == 3 and cls != "CREATE"):
            continue
        if cls == "INSERT" and "INSERT" in seen:
            return "INSERT twice"
        if cls not in order:
            return "unexpected top-level clause " + kw
        k = order.index(cls)
        if k < last:
            return "clause %s out of order" % kw
        if k == last and cls not in ("P", "JOIN"):
            return "clause %s twice" % kw
        if kw in seen and kw != "JOIN":
            return "clause %s twice" % kw
        seen.add(kw)
        last = k
    return None


@harness(
    prop="C13",
    cubes={"kind": range(NKIND), "d": range(ND)},
    bounds={"quick": {"D2": 0}, "thorough": {"D2": 14}},
    timeout={"quick": 300, "thorough": 2400},
    witness=[dict(kind=0, d=2, drop1=0, drop2=0, o=3), dict(kind=2, d=1, drop1=3, drop2=0, o=1)],
    doc="10 statement programs x 6 dialect classes; selectors: up to two optional calls dropped, ordering = identity / "
        "reversal / every rotation / every transposition; every ordering renders the canonical SQL, which is well-formed",
)
def c13_orders(kind: int, d: int, drop1: int, drop2: int, o: int) -> int:
    """
    bound: 0 <= drop1 <= 14 and 0 <= drop2 <= D2 and 0 <= o <= 120
    """
    with _NoTracing():
        base, calls, need = program(kind, d)
        n_all = len(calls)
    drop1, drop2 = pin(drop1, n_all + 1), pin(drop2, n_all + 1)
    with _NoTracing():
        keep = [i for i in range(n_all) if (i + 1 != drop1 and i + 1 != drop2) or i in need]
        chosen = [calls[i] for i in keep]
        ords = orderings(len(chosen))
    o = pin(o, len(ords))
    args = dict(kind=kind, d=d, drop1=drop1, drop2=drop2, o=o)
    with _NoTracing():
        name, perm = ords[o]
        perm = restore_groups(perm, chosen)
        try:
            canon = run(base, chosen, list(range(len(chosen)))).get_sql(dctx(d))
        except Exception as e:
            note("why", "canonical program raised " + type(e).__name__ + ": " + str(e)[:100])
            return SKIP
        try:
            got = run(base, chosen, perm).get_sql(dctx(d))
        except Exception as e:
            note("order", name)
            note("why", "this order raised " + type(e).__name__ + ": " + str(e)[:100])
            return verdict(False, "c13_orders", **args)
        labels = [chosen[i][0] for i in perm]
        # where() before from_() marks the criterion's table as foreign at call time (known finding)
        args["where_before_from"] = ("where" in labels and "from" in labels and labels.index("where") < labels.index("from"))
        note("order", name + " " + str(labels))
        note("canonical", canon)
        note("sql", got)
        why = None
        if kind == 7:
            got, canon = sort_conjuncts(got), sort_conjuncts(canon)
        if got != canon:
            why = "call order changes the statement"
        else:
            why = well_formed(canon, kind, d)
        note("why", why)
    return verdict(why is None, "c13_orders", **args)


@harness(
    prop="C13",
    cubes={"kind": range(6)},
    bounds={"quick": {}, "thorough": {}},
    timeout={"quick": 120, "thorough": 300},
    witness=[dict(kind=0, d=0, e1=True, e2=False, e3=True), dict(kind=2, d=3, e1=True, e2=True, e3=False)],
    doc="incomplete builders (FROM only, INTO without values, UPDATE without SET, CREATE without columns, empty DROP / "
        "builder) with any subset of non-completing calls (where, orderby/limit, join) x 6 dialects render ''",
)
def c13_incomplete(kind: int, d: int, e1: bool, e2: bool, e3: bool) -> int:
    """
    bound: 0 <= d <= 5
    """
    d = pin(d, 6)
    e1, e2, e3 = bool(e1), bool(e2), bool(e3)
    with _NoTracing():
        Q = QS[d]
        t, u = Table("t"), Table("u")
        if kind == 0:
            q = Q.from_(t)
        elif kind == 1:
            q = Q.into(t)
            if e3:
                q = q.columns("a")
        elif kind == 2:
            q = Q.update(t)
        elif kind == 3:
            q = Q.create_table("x")
            if e1:
                q = q.temporary().if_not_exists()
            if e2:
                q = q.unique("a").primary_key("a")
            sql = q.get_sql(dctx(d))
            note("sql", sql)
            return verdict(sql == "", "c13_incomplete", kind=kind, d=d, e1=e1, e2=e2, e3=e3)
        elif kind == 4:
            q = DropQueryBuilder()
            if e1:
                q = q.if_exists()
            sql = q.get_sql(dctx(d))
            note("sql", sql)
            return verdict(sql == "", "c13_incomplete", kind=kind, d=d, e1=e1, e2=e2, e3=e3)
        else:
            q = Q._builder()
        if e1 and kind != 5:
            q = q.where(t.a == 1)
        if e2 and kind in (0, 2):
            q = q.orderby(t.a).limit(3)
        if e3 and kind in (0, 2):
            q = q.join(u).on(t.a == u.a)
        sql = q.get_sql(dctx(d))
        note("sql", sql)
    return verdict(sql == "", "c13_incomplete", kind=kind, d=d, e1=e1, e2=e2, e3=e3)
