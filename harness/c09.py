"""C09 - LIMIT/OFFSET render as the dialect's row-limiting clause, values in the right slots.

limit/offset presence flags, values, setter route and ORDER BY presence are symbolic; the
row-limiting text the real builder adds to the un-paginated statement is compared with the
reference grammar of the dialect, inline and parameterised.
"""
from __future__ import annotations

from harness.common import *  # noqa: F401,F403
from pypika_tortoise import Field

ASSUMPTIONS = [
    "reference row-limiting grammar: MySQL/SQLite `LIMIT n [OFFSET m]` (an offset alone needs a LIMIT; the engines' own "
    "'no limit' idioms LIMIT -1 / LIMIT 18446744073709551615 are accepted); PostgreSQL and the generic class additionally "
    "accept `OFFSET m` alone; SQL Server `ORDER BY ... OFFSET m ROWS [FETCH NEXT n ROWS ONLY]` with `ORDER BY (SELECT 0)` "
    "when the query has no ordering; Oracle `[OFFSET m ROWS] [FETCH NEXT n ROWS ONLY]`",
    "slice(start, stop) is the library's documented mapping start -> offset, stop -> limit",
    "row counts on a SQLite engine are not applicable (engine)",
]

NOLIMIT = {1: "18446744073709551615", 3: "-1"}


def expected_tails(d, has_l, l, has_o, o, ordered, setop, o_is_zero=False):
    """Accepted texts (list) the paginated statement adds after the un-paginated one; values as text pieces.
    `o_is_zero`: the offset given is 0 - 'skip no rows' may also be written by leaving the offset clause out."""
    out = _tails(d, has_l, l, has_o, o, ordered, setop)
    if has_o and o_is_zero and not (d == 4 and has_l):
        out = out + _tails(d, has_l, l, False, o, ordered, setop)
    return out


def _tails(d, has_l, l, has_o, o, ordered, setop):
    L, O = l, o
    if not has_l and not has_o:
        return [""]
    if d == 4 and not setop:
        head = "" if ordered else " ORDER BY (SELECT 0)"
        t = head + " OFFSET " + (O if has_o else "0") + " ROWS"
        if has_l:
            t = t + " FETCH NEXT " + L + " ROWS ONLY"
        return [t]
    if d == 4 and setop:
        t = " OFFSET " + (O if has_o else "0") + " ROWS"
        if has_l:
            t = t + " FETCH NEXT " + L + " ROWS ONLY"
        return [t, " ORDER BY (SELECT 0)" + t]
    if d == 5:
        t = ""
        if has_o:
            t = t + " OFFSET " + O + " ROWS"
        if has_l:
            t = t + " FETCH NEXT " + L + " ROWS ONLY"
        return [t]
    if has_l:
        t = " LIMIT " + L
        if has_o:
            t = t + " OFFSET " + O
        if d in (0, 2) and has_o:
            return [t, " OFFSET " + O + " LIMIT " + L]
        return [t]
    # offset only
    if d in (0, 2):
        return [" OFFSET " + O]
    return [" LIMIT " + NOLIMIT[d] + " OFFSET " + O]


def check_param(out, vals, d, prefix, suffix, has_l, l, has_o, o, ordered, setop):
    """Parameterised form: the text is an accepted one with placeholders numbered in order of appearance, and the
    value list holds limit/offset in that same order."""
    for first in ("l", "o"):
        names = []
        for c in (first, "o" if first == "l" else "l"):
            if (c == "l" and has_l) or (c == "o" and has_o):
                names.append(c)
        ph = {}
        want = []
        for i, c in enumerate(names):
            ph[c] = placeholder(d, i + 1)
            want.append(l if c == "l" else o)
        for t in expected_tails(d, has_l, ph.get("l", ""), has_o, ph.get("o", ""), ordered, setop):
            if out == prefix + t + suffix:
                if len(names) == 2:
                    l_kw = max(t.find(" LIMIT "), t.find(" FETCH NEXT "))
                    o_kw = t.find(" OFFSET ")
                    if ("l" if l_kw < o_kw else "o") != names[0]:
                        continue
                if len(vals) == len(want) and all(a == b for a, b in zip(vals, want)):
                    return True
    if has_o and o == 0 and not (d == 4 and has_l):
        # 'skip no rows' may also be written by leaving the offset clause (and its value) out
        return check_param(out, vals, d, prefix, suffix, has_l, l, False, o, ordered, setop)
    return False


def base_query(d, ordered):
    t = Table("t")
    q = QS[d].from_(t).select(t.a)
    if ordered:
        q = q.orderby(t.a)
    return q


def paginate(q, d, route, has_l, l, has_o, o):
    """Apply the setter route; returns None if the route does not exist for this builder."""
    if route == 0:
        if has_l:
            q = q.limit(l)
        if has_o:
            q = q.offset(o)
        return q
    if route == 1:
        if has_o:
            q = q.offset(o)
        if has_l:
            q = q.limit(l)
        return q
    if route == 2:
        return q.slice(slice(o if has_o else None, l if has_l else None))
    if route == 3:
        return q[(o if has_o else None):(l if has_l else None)]
    if route == 5:  # an offset set earlier is overridden by a later slice with an explicit start
        if not has_o:
            return None
        return q.offset(7).limit(8)[o:(l if has_l else None)] if has_l else q.offset(7)[o:]
    if route == 4:
        if d != 4:
            return None
        if has_o:
            q = q.offset(o)
        if has_l:
            q = q.fetch_next(l)
        return q
    raise AssertionError(route)


def embed(pos, d, q):
    """Place the (paginated or not) query at `pos`; returns the outer object to render."""
    Q = QS[d]
    if pos == 0:
        return q
    if pos == 1:  # subquery in FROM
        q = q.as_("s")
        return Q.from_(q).select(q.a)
    if pos == 2:  # set-operation operand
        u = Table("u")
        return Q.from_(u).select(u.a).union(q)
    raise AssertionError(pos)


def where_tail(pos, d, base_sql):
    """(prefix, suffix) of the un-paginated rendering around the place where the row-limiting text goes."""
    if pos == 0:
        return base_sql, ""
    # the paginated query is the last bracketed / trailing SELECT of the statement
    if base_sql.endswith(') "s"') or base_sql.endswith(") `s`"):
        return base_sql[:-5], base_sql[-5:]
    if base_sql.endswith(")"):
        return base_sql[:-1], ")"
    return base_sql, ""


def base_sql(pos, d, ordered):
    return embed(pos, d, base_query(d, ordered)).get_sql(dctx(d))


@harness(
    prop="C09",
    cubes={"d": range(ND), "pos": [0, 1, 2], "param": [0, 1]},
    bounds={"quick": {"N": 99}, "thorough": {"N": 9999}},
    timeout={"quick": 200, "thorough": 1200},
    witness=[dict(d=5, pos=0, param=0, route=0, has_l=True, l=5, has_o=True, o=10, ordered=False),
             dict(d=4, pos=1, param=1, route=4, has_l=True, l=0, has_o=False, o=0, ordered=True),
             dict(d=1, pos=2, param=0, route=3, has_l=True, l=3, has_o=True, o=0, ordered=False)],
    doc="limit/offset presence x values 0..N x 6 setter routes (limit/offset in both call orders, slice, [a:b], "
        "fetch_next, slice overriding an earlier offset) x ORDER BY presence, at top level / FROM subquery / set-operation operand, inline and parameterised",
)
def c09_select(d: int, pos: int, param: int, route: int, has_l: bool, l: int, has_o: bool, o: int, ordered: bool) -> int:
    """
    bound: 0 <= route <= 5
    bound: 0 <= l <= N and 0 <= o <= N
    """
    if route == 0:
        route = 0
    elif route == 1:
        route = 1
    elif route == 2:
        route = 2
    elif route == 3:
        route = 3
    elif route == 4:
        route = 4
    else:
        route = 5
    q = paginate(base_query(d, ordered), d, route, has_l, l, has_o, o)
    if q is None:
        return SKIP
    outer = embed(pos, d, q)
    args = dict(d=d, pos=pos, param=param, route=route, has_l=has_l, l=l, has_o=has_o, o=o, ordered=ordered)
    prefix, suffix = where_tail(pos, d, concrete_cached(base_sql, pos, d, bool(ordered)))
    if param == 0:
        out = outer.get_sql(dctx(d))
        note("sql", out)
        ok = False
        zero = bool(has_o and o == 0)
        for t in expected_tails(d, has_l, str(l), has_o, str(o), ordered, False, zero):
            if out == prefix + t + suffix:
                ok = True
                break
        note("accepted", [prefix + t + suffix for t in expected_tails(d, has_l, str(l), has_o, str(o), ordered, False, zero)])
        return verdict(ok, "c09_select", **args)
    pctx = dctx(d, parameterized=True)
    out = outer.get_sql(pctx)
    vals = pctx.parameterizer.values
    note("sql", out)
    note("values", list(vals))  # (no repr here: repr() of a symbolic value forks per character class)
    ok = check_param(out, vals, d, prefix, suffix, has_l, l, has_o, o, ordered, False)
    return verdict(ok, "c09_select", **args)


@harness(
    prop="C09",
    cubes={"d": range(ND), "param": [0, 1]},
    bounds={"quick": {"N": 99}, "thorough": {"N": 9999}},
    timeout={"quick": 120, "thorough": 600},
    witness=[dict(d=2, param=0, has_l=True, l=5, has_o=True, o=1, ordered=True)],
    doc="pagination of the set operation itself (q1 UNION q2).limit/offset, ORDER BY optional",
)
def c09_setop(d: int, param: int, has_l: bool, l: int, has_o: bool, o: int, ordered: bool) -> int:
    """
    bound: 0 <= l <= N and 0 <= o <= N
    """
    t, u = Table("t"), Table("u")
    so = QS[d].from_(t).select(t.a).union(QS[d].from_(u).select(u.a))
    if ordered:
        so = so.orderby(Field("a"))
    base = so.get_sql(dctx(d))
    if has_l:
        so = so.limit(l)
    if has_o:
        so = so.offset(o)
    args = dict(d=d, param=param, has_l=has_l, l=l, has_o=has_o, o=o, ordered=ordered)
    if param == 0:
        out = so.get_sql(dctx(d))
        note("sql", out)
        ok = False
        for tl in expected_tails(d, has_l, str(l), has_o, str(o), ordered, True):
            if out == base + tl:
                ok = True
        return verdict(ok, "c09_setop", **args)
    pctx = dctx(d, parameterized=True)
    out = so.get_sql(pctx)
    vals = pctx.parameterizer.values
    note("sql", out)
    note("values", list(vals))  # (no repr here: repr() of a symbolic value forks per character class)
    ok = check_param(out, vals, d, base, "", has_l, l, has_o, o, ordered, True)
    return verdict(ok, "c09_setop", **args)


@harness(
    prop="C09",
    cubes={"ordered": [0, 1]},
    bounds={"quick": {"N": 99}, "thorough": {"N": 9999}},
    timeout={"quick": 60, "thorough": 300},
    witness=[dict(ordered=0, n=3, as_str=False, distinct=False, top_first=False),
             dict(ordered=1, n=0, as_str=True, distinct=True, top_first=True)],
    doc="SQL Server top(n), n as int or numeric string, 0..N, with / without DISTINCT, top() before or after the other "
        "calls: SELECT [DISTINCT] TOP (n) is emitted for every n (0 included)",
)
def c09_top(ordered: int, n: int, as_str: bool, distinct: bool, top_first: bool) -> int:
    """
    bound: 0 <= n <= N
    """
    t = Table("t")
    distinct, top_first = bool(distinct), bool(top_first)
    nn = str(n) if as_str else n

    def rest(q):
        q = q.select(t.a)
        if distinct:
            q = q.distinct()
        if ordered:
            q = q.orderby(t.a)
        return q

    base = rest(MSSQLQuery.from_(t)).get_sql(dctx(4))
    q = rest(MSSQLQuery.from_(t).top(nn)) if top_first else rest(MSSQLQuery.from_(t)).top(nn)
    out = q.get_sql(dctx(4))
    note("sql", out)
    # T-SQL: SELECT [ALL | DISTINCT] [TOP (expression)] select_list
    head = "SELECT DISTINCT " if distinct else "SELECT "
    exp = head + "TOP (" + str(n) + ") " + base[len(head):]
    note("expected", exp)
    return verdict(base.startswith(head) and out == exp, "c09_top", ordered=ordered, n=n, as_str=as_str, distinct=distinct,
                   top_first=top_first)
