"""C02 - rendering is a pure, repeatable, process-independent function.

Every object graph of the C01 catalogue (symbolic leaves inside) is rendered under all twelve
contexts (six dialects x inline / parameterised), through str/hash/== as well, twice; the
renderings must agree and the object, the classes and the modules must be untouched.  Hash-seed
dependence is modelled by replacing the module-global `set` of the library modules with a set
whose iteration order is chosen by a symbolic permutation index.
"""
from __future__ import annotations

import itertools

from harness import c01
from harness.common import *  # noqa: F401,F403
from harness.snapshot import _NoTracing, same_nt, snap_nt
from pypika_tortoise import Field
from pypika_tortoise import functions as fn
import pypika_tortoise.queries as _queries
import pypika_tortoise.terms as _terms
import pypika_tortoise.dialects.postgresql as _pg
import pypika_tortoise.dialects.mysql as _my
import pypika_tortoise.dialects.sqlite as _sq
import pypika_tortoise.dialects.mssql as _ms
import pypika_tortoise.dialects.oracle as _or
from harness import introspect

ASSUMPTIONS = [
    "a different PYTHONHASHSEED changes nothing for this code but the iteration order of sets (module-global `set` is "
    "replaced by NondetSet in pypika_tortoise.queries/terms/dialects.*; set displays and comprehensions cannot be "
    "intercepted this way - they are listed in the evidence and are only used for membership tests today)",
    "threads: not modelled as schedules. What is decided is the premise of the non-interference argument - a render "
    "writes nothing reachable from the object, its classes or the library modules - for every input in the bound; a "
    "write that is undone before get_sql returns would escape this and is outside the claim",
    "a caller-supplied Parameterizer is the one object a render may write to (checked: only .values grows)",
]

LIB_MODULES = (_queries, _terms, _pg, _my, _sq, _ms, _or)


def global_state():
    """Snapshot of every class dict and module-level container of the package (taken outside the tracer)."""
    with _NoTracing():
        out = []
        for qn, cls in sorted(introspect.classes().items()):
            for k, v in sorted(vars(cls).items()):
                if k.startswith("__"):
                    continue  # (__annotations__ etc. are materialised lazily by the interpreter)
                if isinstance(v, (list, dict, set, tuple)) or type(v).__name__ == "SqlContext":
                    out.append((qn, k, repr(snap_nt(v))))
        for m in introspect.modules():
            for k, v in sorted(vars(m).items()):
                if isinstance(v, (list, dict, set)) and not k.startswith("__"):
                    out.append((m.__name__, k, len(v)))
        return tuple(out)


def reachable_ids(x, acc=None):
    """ids of every object reachable from x through __dict__ / containers (the objects that exist before a render)."""
    if acc is None:
        acc = set()
    if isinstance(x, (str, int, float, bool, type(None), bytes)) or isinstance(x, type):
        return acc
    if id(x) in acc:
        return acc
    acc.add(id(x))
    if isinstance(x, (list, tuple, set, frozenset)):
        for v in x:
            reachable_ids(v, acc)
    elif isinstance(x, dict):
        for k, v in x.items():
            reachable_ids(k, acc)
            reachable_ids(v, acc)
    else:
        d = getattr(x, "__dict__", None)
        if isinstance(d, dict):
            for v in d.values():
                reachable_ids(v, acc)
    return acc


class WriteWatch:
    """Records attribute assignments made on library objects while active (class-level __setattr__ hooks).  A write to an
    object that existed before the render is a violation even if it is undone before get_sql returns."""

    def __init__(self, preexisting):
        self.pre = preexisting
        self.writes = []
        self.saved = []

    def __enter__(self):
        import enum
        for qn, cls in introspect.classes().items():
            if issubclass(cls, enum.Enum) or cls.__name__ == "SqlContext" or issubclass(cls, BaseException):
                continue
            old = vars(cls).get("__setattr__")

            def hook(obj, name, value, _w=self.writes, _pre=self.pre):
                if id(obj) in _pre:
                    _w.append(type(obj).__name__ + "." + name)
                object.__setattr__(obj, name, value)

            try:
                setattr(cls, "__setattr__", hook)
                self.saved.append((cls, old))
            except (TypeError, AttributeError):
                pass
        return self

    def __exit__(self, *exc):
        for cls, old in self.saved:
            if old is None:
                try:
                    delattr(cls, "__setattr__")
                except AttributeError:
                    pass
            else:
                setattr(cls, "__setattr__", old)
        return False


def render_all(x, d0, dialects=None):
    """SQL (and parameter values) under the 12 contexts, then str / hash / == (which also render)."""
    out = []
    for d in (range(ND) if dialects is None else dialects):
        for par in (False, True):
            ctx = dctx(d, par)
            try:
                out.append(x.get_sql(ctx))
            except Exception as e:
                out.append("EXC " + type(e).__name__)
            if par:
                out.append(list(ctx.parameterizer.values))
    try:
        out.append(str(x))
    except Exception as e:
        out.append("EXC " + type(e).__name__)
    try:
        hash(x)
        x == x  # noqa: B015
    except Exception:
        pass
    if hasattr(x, "get_parameterized_sql") and isinstance(x, _queries.QueryBuilder):
        try:
            sql, vals = x.get_parameterized_sql()
            out.append(sql)
            out.append(list(vals))
        except Exception as e:
            out.append("EXC " + type(e).__name__)
    return out


def equal_lists(a, b):
    if len(a) != len(b):
        return False
    for x, y in zip(a, b):
        if isinstance(x, list):
            if len(x) != len(y):
                return False
            for p, q in zip(x, y):
                if not (p is q or p == q):
                    return False
        elif not (x == y):
            return False
    return True


def rerender_check(name, X, d, args, dialects=None, watch=False):
    g0 = global_state()
    s0 = snap_nt(X)
    if watch:
        with WriteWatch(reachable_ids(X)) as w:
            r1 = render_all(X, d, dialects)
        writes = sorted(set(w.writes))
    else:
        r1 = render_all(X, d, dialects)
        writes = []
    ok, why = True, ""
    if writes:
        ok, why = False, "rendering assigned attributes of existing objects: " + ", ".join(writes[:6])
    if ok and not same_nt(snap_nt(X), s0):
        ok, why = False, "rendering changed the object"
    r2 = render_all(X, d, dialects)
    if ok and not same_nt(snap_nt(X), s0):
        ok, why = False, "re-rendering changed the object"
    if ok and not equal_lists(r1, r2):
        ok, why = False, "second rendering differs from the first"
    if ok and global_state() != g0:
        ok, why = False, "rendering changed class- or module-level state"
    note("why", why)
    if not ok:
        note("first", [x for x in r1 if isinstance(x, str)][:3])
        note("second", [x for x in r2 if isinstance(x, str)][:3])
    return verdict(ok, name, **args)


@harness(
    prop="C02",
    cubes={"ci": range(len(c01.CASE_NAMES))},
    bounds={"quick": {}, "thorough": {}},
    timeout={"quick": 200, "thorough": 900},
    witness=[dict(ci=c01.CASE_NAMES.index("update_join"), d=2), dict(ci=c01.CASE_NAMES.index("where"), d=1),
             dict(ci=c01.CASE_NAMES.index("ct_columns"), d=0)],
    doc="each of the 113 catalogue objects x 6 builder classes (dialect selector symbolic; leaves concrete - rendering a "
        "500-character statement 26 times on symbolic strings costs minutes per path) rendered under the 12 contexts + "
        "str/hash/==/get_parameterized_sql, twice: identical outputs, object snapshot unchanged, class/module state unchanged",
)
def c02_rerender(ci: int, d: int) -> int:
    """
    bound: 0 <= d <= 5
    """
    d = c01.pin_d(d)
    cname = c01.CASE_NAMES[ci]
    if not c01.allowed(cname, d):
        return SKIP
    factory, call = c01.CASES[cname]
    note("case", cname)
    with _NoTracing():  # everything below is concrete
        try:
            X = call(factory(d), "q", 7, 2)
        except Exception as e:
            note("guard", type(e).__name__)
            return SKIP
        if not hasattr(X, "get_sql"):
            return SKIP
        return rerender_check("c02_rerender", X, d, dict(ci=ci, d=d), watch=True)


@harness(
    prop="C02",
    cubes={"sk": range(8), "d": range(ND)},
    bounds={"quick": {"L": 2}, "thorough": {"L": 4}},
    timeout={"quick": 200, "thorough": 900},
    witness=[dict(sk=0, d=2, s="x'"), dict(sk=3, d=1, s="*")],
    doc="short statements with a symbolic string value (any code points, len<=L): double rendering under the own and "
        "one foreign dialect, inline and parameterised, + str/hash/==, compared symbolically",
)
def c02_rerender_symbolic(sk: int, d: int, s: str) -> int:
    """
    bound: len(s) <= L
    """
    from harness import c04
    if s == "*":
        s = "*"
    X = c04.build_short(sk, d, s)
    note("case", sk)
    # own dialect and one foreign dialect, inline and parameterised (symbolic renderings are costly)
    return rerender_check("c02_rerender_symbolic", X, d, dict(sk=sk, d=d, s=s), dialects=(d, (d + 1) % ND))


def term_object(k):
    from harness import c16
    from pypika_tortoise.terms import Interval, Parameter
    from pypika_tortoise import analytics as an
    t, o = Table("t"), Table("o")
    if k < c16.NTERM:
        return c16.build_term(k, t, o)
    k -= c16.NTERM
    if k == 0:
        return Interval(days=3)
    if k == 1:
        return Interval(years=1, months=2, days=-0 + 4, hours=5)
    if k == 2:
        return Interval(quarters=2)
    if k == 3:
        return Field("d") + Interval(weeks=1)
    if k == 4:
        return fn.DateAdd("day", Interval(days=3), Field("d"))
    if k == 5:
        return Parameter(idx=2)
    if k == 6:
        return an.LastValue(Field("a")).over(Field("b")).rows(an.Preceding(2), an.Following()).ignore_nulls()
    if k == 7:
        return Table("t", schema="s").for_(Field("sys").between(1, 2))
    raise AssertionError(k)


NTERMOBJ = 32 + 8


@harness(
    prop="C02",
    cubes={"k": range(NTERMOBJ)},
    bounds={"quick": {}, "thorough": {}},
    timeout={"quick": 120, "thorough": 300},
    witness=[dict(k=32, first=2), dict(k=7, first=0)],
    doc="term-level objects (32 term kinds of C16, intervals, parameters, window functions, temporal tables) rendered "
        "under the 12 contexts starting from a symbolic first dialect (rotation), twice; attribute writes watched",
)
def c02_terms(k: int, first: int) -> int:
    """
    bound: 0 <= first <= 5
    """
    first = c01.pin_d(first)
    with _NoTracing():
        X = term_object(k)
        Y = term_object(k)  # untouched twin: what a fresh object renders
        order = tuple((first + i) % ND for i in range(ND))
        v = rerender_check("c02_terms", X, first, dict(k=k, first=first), dialects=order, watch=True)
        if v == OK:
            # rendering history must not matter: the twin rendered in the natural order gives the same texts per context
            a = render_all(X, first, dialects=range(ND))
            b = render_all(Y, 0, dialects=range(ND))
            if not equal_lists(a, b):
                note("why", "an object rendered before under another dialect renders differently from a fresh one")
                note("first", [x for x in a if isinstance(x, str)][:4])
                note("second", [x for x in b if isinstance(x, str)][:4])
                return verdict(False, "c02_terms", k=k, first=first)
        return v


# ---- hash seed ---------------------------------------------------------------------------------
class NondetSet(set):
    """set whose iteration order is the PERM-th permutation of its sorted elements (PERM set by the harness)."""

    PERM = 0

    def __iter__(self):
        items = sorted(set.__iter__(self), key=repr)
        perms = list(itertools.permutations(items))
        k = NondetSet.PERM
        pick = perms[0]
        for i in range(len(perms)):
            if k % len(perms) == i:
                pick = perms[i]
        return iter(pick)


def with_nondet_sets(fn_, perm):
    saved = []
    for m in LIB_MODULES:
        saved.append((m, m.__dict__.get("set", None), "set" in m.__dict__))
        m.__dict__["set"] = NondetSet
    NondetSet.PERM = perm
    try:
        return fn_()
    finally:
        for m, old, had in saved:
            if had:
                m.__dict__["set"] = old
            else:
                del m.__dict__["set"]


def seed_objects(k, d, names):
    Q = QS[d]
    t, u, w = Table("t"), Table("u"), Table("w")
    if k == 0:
        return lambda: Q.from_(t).select(t.a).for_update(of=names)
    if k == 1:
        return lambda: Q.from_(t).join(u).cross().join(w).cross().select(t.star, u.star, w.star, u.b)
    if k == 2:
        return lambda: Q.from_(t).join(u).on((t.a == u.a) & (u.b == t.b)).join(w).on(w.c == t.c).select(t.a).where(u.x == w.y)
    if k == 3:
        if d != 2:
            return None
        return lambda: Q.update(t).join(u).on(t.a == u.a).set(t.b, u.b).returning(t.a, t.b)
    raise AssertionError(k)


@harness(
    prop="C02",
    cubes={"k": range(4), "d": range(ND)},
    bounds={"quick": {}, "thorough": {}},
    timeout={"quick": 400, "thorough": 900},
    witness=[dict(k=0, d=2, p1=0, p2=5, order=0)],
    doc="hash-seed independence: statements that put user data into sets (FOR UPDATE OF names, starred tables, join "
        "validation, RETURNING validation) built and rendered under two symbolic set-iteration permutations (p1, p2 in "
        "0..5) and every order of three names: same SQL",
    stubs=["module-global set = NondetSet in the library modules"],
)
def c02_hashseed(k: int, d: int, p1: int, p2: int, order: int) -> int:
    """
    bound: 0 <= p1 <= 5 and 0 <= p2 <= 5 and 0 <= order <= 5
    """
    perms = list(itertools.permutations(("a1", "b2", "c3")))
    names = None
    for i in range(6):
        if order == i:
            names = perms[i]
    mk = seed_objects(k, d, names)
    if mk is None:
        return SKIP

    def run():
        q = mk()
        return q.get_sql(dctx(d))

    r1 = with_nondet_sets(run, p1)
    r2 = with_nondet_sets(run, p2)
    note("sql_p1", r1)
    note("sql_p2", r2)
    return verdict(r1 == r2, "c02_hashseed", k=k, d=d, p1=p1, p2=p2, order=order)
