"""C15 - copy, deepcopy and pickle round-trips preserve and decouple objects.

Object graphs = every receiver family of C01 after one more builder call with symbolic leaves
(queries of all six classes, set operations, DDL builders, tables, CASE / function / analytic
terms, criteria, joins) plus schemas, databases and NOT wrappers; the duplicate must have the
same structure (hence the same renderings) and later builder calls on either side must not show
on the other.
"""
from __future__ import annotations

import copy
import pickle

from harness import c01
from harness.common import *  # noqa: F401,F403
from harness.snapshot import _NoTracing, same_nt, same_structure, snap_nt
from pypika_tortoise import Database, Field, Not, Schema

ASSUMPTIONS = [
    "structurally identical object graphs render identically (C02); compared by snapshot",
    "pickle cannot serialise CrossHair's symbolic leaves: pickle instances are built with concrete leaves, the solver "
    "explores the dialect selector and the arguments of the follow-up calls only",
]

MECHS = ("copy", "deepcopy", "pickle2", "pickleH")


def dup(x, mech):
    if mech == 0:
        return copy.copy(x)
    if mech == 1:
        return copy.deepcopy(x)
    if mech == 2:
        return pickle.loads(pickle.dumps(x, 2))
    return pickle.loads(pickle.dumps(x, pickle.HIGHEST_PROTOCOL))


def unchanged(obj, before):
    return same_nt(snap_nt(obj), before)


# priority order: the quick tier explores the first FJ+1 follow-ups of a family, the thorough tier all of them
FOLLOW_CORE = ("modifier", "force_index", "distinct_on", "select", "orderby", "returning", "where", "groupby", "join_on",
               "insert", "columns", "do_update", "set", "so_union", "so_orderby", "ct_columns", "ct_unique", "case_when",
               "agg_filter", "an_over", "an_orderby", "with_", "for_update", "rollup")


def follow_ups(cname):
    """Container-extending methods of the same receiver family (rich and minimal receivers share a family)."""
    fam = c01.CASES[cname][0]
    fams = {fam}
    for a, b in c01.MINIMAL.items():
        if a is fam or b is fam:
            fams.update((a, b))
    out = []
    for nm in c01.CASE_NAMES:
        base = nm[4:] if nm.startswith("min:") else nm
        if nm.startswith("min:"):
            continue
        if c01.CASES[nm][0] in fams and base in FOLLOW_CORE:
            out.append(nm)
    out.sort(key=lambda nm: FOLLOW_CORE.index(nm))
    return out


def body(name, ci, mech, d, s, n, fj=0):
    cname = c01.CASE_NAMES[ci]
    factory, call = c01.CASES[cname]
    factory = c01.fresh(factory)
    fups = follow_ups(cname)
    if fups:
        fname = fups[0]
        for i in range(len(fups)):
            if fj == i:
                fname = fups[i]
        if not c01.allowed(fname, d):
            return SKIP
        fcall = c01.CASES[fname][1]
        note("follow_up", fname)
    else:
        fcall = call
    leaves_symbolic = mech < 2
    try:
        X = call(factory(d), s, n, 1 if leaves_symbolic else 2)
    except Exception as e:
        note("guard", type(e).__name__)
        return SKIP
    if not hasattr(type(X), "__mro__") or isinstance(X, (str, int)):
        return SKIP
    sx = snap_nt(X)
    why = ""
    ok = True
    try:
        D = dup(X, mech)
    except Exception as e:
        note("sql_or_exc", repr(e)[:300])
        note("case", cname)
        note("why", "duplication raised " + type(e).__name__)
        return verdict(False, name, ci=ci, mech=mech, d=d, s=s, n=n)
    if D is X:
        ok, why = False, "duplicate is the original object"
    if ok and not unchanged(X, sx):
        ok, why = False, "duplicating changed the original"
    sd = snap_nt(D)
    if ok and not same_structure(D, X):
        ok, why = False, "duplicate differs structurally from the original"
    if ok and not leaves_symbolic and hasattr(X, "get_sql"):
        # concrete instance: compare the renderings themselves under the six contexts (outside the tracer)
        with _NoTracing():
            for dd in range(ND):
                try:
                    a = X.get_sql(dctx(dd))
                except Exception as e:
                    a = "EXC " + type(e).__name__
                try:
                    b = D.get_sql(dctx(dd))
                except Exception as e:
                    b = "EXC " + type(e).__name__
                if a != b:
                    ok, why = False, "duplicate renders differently under " + DNAMES[dd]
    if ok:
        # builder call on the duplicate must not show on the original, and vice versa
        try:
            fcall(D, s, n, 3)
        except Exception as e:
            note("guard_dup", type(e).__name__)
        if not unchanged(X, sx):
            ok, why = False, "a builder call on the duplicate changed the original"
        elif not unchanged(D, sd):
            ok, why = False, "a builder call on the duplicate changed the duplicate itself"
    if ok:
        try:
            fcall(X, s, n, 3)
        except Exception as e:
            note("guard_orig", type(e).__name__)
        if not unchanged(D, sd):
            ok, why = False, "a builder call on the original changed the duplicate"
    note("case", cname)
    note("why", why)
    return verdict(ok, name, ci=ci, mech=mech, d=d, s=s, n=n)


@harness(
    prop="C15",
    cubes={"ci": range(len(c01.CASE_NAMES)), "mech": range(4)},
    bounds={"quick": {"L": 1, "N": 9, "FJ": 1}, "thorough": {"L": 2, "N": 99, "FJ": 12}},
    timeout={"quick": 200, "thorough": 900},
    witness=[dict(ci=c01.CASE_NAMES.index("where"), mech=1, d=1, s="x'", n=1, fj=0),
             dict(ci=c01.CASE_NAMES.index("where"), mech=0, d=2, s="a", n=1, fj=1),
             dict(ci=c01.CASE_NAMES.index("so_union"), mech=2, d=0, s="a", n=1, fj=1),
             dict(ci=c01.CASE_NAMES.index("table_as_"), mech=3, d=0, s="a", n=1, fj=0)],
    doc="every C01 case result (113 object graphs x 6 dialect classes) x copy.copy / copy.deepcopy / pickle protocol 2 / "
        "highest; structure preserved; follow-up builder call (any container-extending method of the family, symbolic "
        "selector, fresh symbolic arguments) on either side does not change the other",
)
def c15_dup(ci: int, mech: int, d: int, s: str, n: int, fj: int) -> int:
    """
    bound: len(s) <= L and 0 <= n <= N and 0 <= d <= 5 and 0 <= fj <= FJ
    """
    d = c01.pin_d(d)
    if not c01.allowed(c01.CASE_NAMES[ci], d):
        return SKIP
    nf = len(follow_ups(c01.CASE_NAMES[ci]))
    if fj >= max(nf, 1):
        return SKIP
    return body("c15_dup", ci, mech, d, s, n, fj)


def extra_graph(k, s):
    t = Table("t")
    if k == 0:
        return Schema(s, parent=Database("db"))
    if k == 1:
        return Database(s)
    if k == 2:
        return Not(t.a == s)
    if k == 3:
        return Not(t.a.isin([s, 1])).like("x")  # attribute lookup delegated through Not.__getattr__
    if k == 4:
        return Table("t", schema=Schema("s", parent=Database(s)), alias="al")
    if k == 5:
        return getattr(Schema("s"), "tbl")  # table created through Schema.__getattr__
    if k == 6:
        return Table("t").for_(Field("sys").between(s, "z"))
    if k == 7:  # a NOT wrapper on which a dynamically forwarded method was already called once
        n = Not(Field(s, table=t))
        n.has_key("k")          # JSON operators live on Field only: looked up through Not.__getattr__
        n.get_text_value("x")
        return n
    if k == 8:  # a table / schema whose dynamic attribute lookup was used before
        tb = Table("t", schema="s")
        tb.some_column
        tb["other"]
        return tb
    if k == 9:  # module-level type constants inside the graph (identity must not matter after a deep copy)
        from pypika_tortoise import functions as fn
        from pypika_tortoise.enums import SqlTypes
        t2 = Table("t")
        return MySQLQuery.from_(t2).select(fn.Cast(t2.a, SqlTypes.VARCHAR), fn.Cast(t2.b, SqlTypes.INTEGER),
                                           fn.Cast(Field(s), SqlTypes.VARCHAR(12)))
    raise AssertionError(k)


NEXTRA = 10


@harness(
    prop="C15",
    cubes={"k": range(NEXTRA), "mech": range(4)},
    bounds={"quick": {"L": 2}, "thorough": {"L": 3}},
    timeout={"quick": 100, "thorough": 900},
    witness=[dict(k=0, mech=1, s="s"), dict(k=3, mech=2, s="q"), dict(k=5, mech=3, s="q")],
    doc="schemas, databases, NOT wrappers (dynamic attribute lookup), schema-qualified and temporal tables",
)
def c15_extra(k: int, mech: int, s: str) -> int:
    """
    bound: len(s) <= L
    """
    if mech >= 2:
        s = "pq"
    X = extra_graph(k, s)
    sx = snap_nt(X)
    try:
        D = dup(X, mech)
    except Exception as e:
        note("why", "duplication raised " + repr(e)[:200])
        return verdict(False, "c15_extra", k=k, mech=mech, s=s)
    ok = D is not X and same_structure(D, X) and same_nt(snap_nt(X), sx)
    if ok and hasattr(X, "get_sql"):
        for dd in range(ND):
            if not (X.get_sql(dctx(dd)) == D.get_sql(dctx(dd))):
                ok = False
    if ok and k == 7:
        # forwarded methods of the duplicate work on the duplicate's own term
        ns = DEFAULT_SQL_CONTEXT.copy(with_namespace=True)
        ok = X.has_key("q").get_sql(ns) == D.has_key("q").get_sql(ns)
        if ok:
            d2 = D.replace_table(Table("t"), Table("zz"))
            ok = d2.has_key("q").get_sql(ns) == Not(Field(s, table=Table("zz"))).has_key("q").get_sql(ns)
    if ok and k >= 4 and k != 7:
        # a builder call on the duplicate leaves the original alone
        D.as_("zz")
        Y = D.as_("zz")
        ok = same_nt(snap_nt(X), sx) and Y is not D
    note("why", "" if ok else "duplicate differs from / is coupled to the original")
    return verdict(ok, "c15_extra", k=k, mech=mech, s=s)
