"""C15 - copy, deepcopy and pickle round-trips preserve and decouple objects.

Object graphs = every receiver family of C01 after one more builder call with symbolic leaves
(queries of all six classes, set operations, DDL builders, tables, CASE / function / analytic
terms, criteria, joins) plus schemas, databases and NOT wrappers; the duplicate must have the
same structure (hence the same renderings) and later builder calls on either side must not show
on the other.
"""
from __future__ import annotations

import copy
import pickle

from harness import c01
from harness.common import *  # noqa: F401,F403
from harness.snapshot import _NoTracing, same_nt, same_structure, snap_nt
from pypika_tortoise import Database, Field, Not, Schema

ASSUMPTIONS = [
    "structurally identical object graphs render identically (C02); compared by snapshot",
    "pickle cannot serialise CrossHair's symbolic leaves: pickle instances are built with concrete leaves, the solver "
    "explores the dialect selector and the arguments of the follow-up calls only",
]

MECHS = ("copy", "deepcopy", "pickle2", "pickleH")


def dup(x, mech):
    if mech == 0:
        return copy.copy(x)
    if mech == 1:
        return copy.deepcopy(x)
    if mech == 2:
        return pickle.loads(pickle.dumps(x, 2))
    return pickle.loads(pickle.dumps(x, pickle.HIGHEST_PROTOCOL))


def unchanged(obj, before):
    return same_nt(snap_nt(obj), before)


def body(name, ci, mech, d, s, n):
    cname = c01.CASE_NAMES[ci]
    factory, call = c01.CASES[cname]
    factory = c01.fresh(factory)
    leaves_symbolic = mech < 2
    try:
        X = call(factory(d), s, n, 1 if leaves_symbolic else 2)
    except Exception as e:
        note("guard", type(e).__name__)
        return SKIP
    if not hasattr(type(X), "__mro__") or isinstance(X, (str, int)):
        return SKIP
    sx = snap_nt(X)
    why = ""
    ok = True
    try:
        D = dup(X, mech)
    except Exception as e:
        note("sql_or_exc", repr(e)[:300])
        note("case", cname)
        note("why", "duplication raised " + type(e).__name__)
        return verdict(False, name, ci=ci, mech=mech, d=d, s=s, n=n)
    if D is X:
        ok, why = False, "duplicate is the original object"
    if ok and not unchanged(X, sx):
        ok, why = False, "duplicating changed the original"
    sd = snap_nt(D)
    if ok and not same_structure(D, X):
        ok, why = False, "duplicate differs structurally from the original"
    if ok:
        # builder call on the duplicate must not show on the original, and vice versa
        try:
            call(D, s, n, 3)
        except Exception as e:
            note("guard_dup", type(e).__name__)
        if not unchanged(X, sx):
            ok, why = False, "a builder call on the duplicate changed the original"
        elif not unchanged(D, sd):
            ok, why = False, "a builder call on the duplicate changed the duplicate itself"
    if ok:
        try:
            call(X, s, n, 3)
        except Exception as e:
            note("guard_orig", type(e).__name__)
        if not unchanged(D, sd):
            ok, why = False, "a builder call on the original changed the duplicate"
    note("case", cname)
    note("why", why)
    return verdict(ok, name, ci=ci, mech=mech, d=d, s=s, n=n)


@harness(
    prop="C15",
    cubes={"ci": range(len(c01.CASE_NAMES)), "mech": range(4)},
    bounds={"quick": {"L": 2, "N": 99}, "thorough": {"L": 3, "N": 999}},
    timeout={"quick": 120, "thorough": 600},
    witness=[dict(ci=c01.CASE_NAMES.index("where"), mech=1, d=2, s="x'", n=1),
             dict(ci=c01.CASE_NAMES.index("so_union"), mech=2, d=0, s="a", n=1),
             dict(ci=c01.CASE_NAMES.index("table_as_"), mech=3, d=0, s="a", n=1)],
    doc="every C01 case result (113 object graphs x 6 dialect classes) x copy.copy / copy.deepcopy / pickle protocol 2 / "
        "highest; structure preserved; follow-up builder call (same method, fresh symbolic arguments) on either side does "
        "not change the other",
)
def c15_dup(ci: int, mech: int, d: int, s: str, n: int) -> int:
    """
    bound: len(s) <= L and 0 <= n <= N and 0 <= d <= 5
    """
    d = c01.pin_d(d)
    if not c01.allowed(c01.CASE_NAMES[ci], d):
        return SKIP
    return body("c15_dup", ci, mech, d, s, n)


def extra_graph(k, s):
    t = Table("t")
    if k == 0:
        return Schema(s, parent=Database("db"))
    if k == 1:
        return Database(s)
    if k == 2:
        return Not(t.a == s)
    if k == 3:
        return Not(t.a.isin([s, 1])).like("x")  # attribute lookup delegated through Not.__getattr__
    if k == 4:
        return Table("t", schema=Schema("s", parent=Database(s)), alias="al")
    if k == 5:
        return getattr(Schema("s"), "tbl")  # table created through Schema.__getattr__
    if k == 6:
        return Table("t").for_(Field("sys").between(s, "z"))
    if k == 7:  # a NOT wrapper on which a dynamically forwarded method was already called once
        n = Not(t.a == s)
        n.like("x%")
        n.isin([1, 2])
        return n
    if k == 8:  # a table / schema whose dynamic attribute lookup was used before
        tb = Table("t", schema="s")
        tb.some_column
        tb["other"]
        return tb
    raise AssertionError(k)


NEXTRA = 9


@harness(
    prop="C15",
    cubes={"k": range(NEXTRA), "mech": range(4)},
    bounds={"quick": {"L": 2}, "thorough": {"L": 4}},
    timeout={"quick": 60, "thorough": 300},
    witness=[dict(k=0, mech=1, s="s"), dict(k=3, mech=2, s="q"), dict(k=5, mech=3, s="q")],
    doc="schemas, databases, NOT wrappers (dynamic attribute lookup), schema-qualified and temporal tables",
)
def c15_extra(k: int, mech: int, s: str) -> int:
    """
    bound: len(s) <= L
    """
    if mech >= 2:
        s = "pq"
    X = extra_graph(k, s)
    sx = snap_nt(X)
    try:
        D = dup(X, mech)
    except Exception as e:
        note("why", "duplication raised " + repr(e)[:200])
        return verdict(False, "c15_extra", k=k, mech=mech, s=s)
    ok = D is not X and same_structure(D, X) and same_nt(snap_nt(X), sx)
    if ok and hasattr(X, "get_sql"):
        ok = X.get_sql(dctx(0)) == D.get_sql(dctx(0)) and X.get_sql(dctx(1)) == D.get_sql(dctx(1))
    if ok and k == 7:
        # forwarded methods of the duplicate work on the duplicate's own term
        a = X.like("q").get_sql(dctx(0))
        b = D.like("q").get_sql(dctx(0))
        ok = a == b
        if ok:
            d2 = D.replace_table(Table("t"), Table("zz"))
            ok = d2.like("q").get_sql(DEFAULT_SQL_CONTEXT.copy(with_namespace=True)) == \
                Not(Table("zz").a == s).like("q").get_sql(DEFAULT_SQL_CONTEXT.copy(with_namespace=True))
    if ok and k >= 4 and k != 7:
        # a builder call on the duplicate leaves the original alone
        D.as_("zz")
        Y = D.as_("zz")
        ok = same_nt(snap_nt(X), sx) and Y is not D
    note("why", "" if ok else "duplicate differs from / is coupled to the original")
    return verdict(ok, "c15_extra", k=k, mech=mech, s=s)
