"""Shared vocabulary of the harnesses: dialect table, contexts, verdict helpers.

Everything here is plain Python over the public API of the real package; nothing models the library.
"""
from __future__ import annotations

from engine.registry import KNOWN, NOTES, OK, SKIP, VIOL, harness, note, verdict  # noqa: F401

import pypika_tortoise as pk
from pypika_tortoise import (  # noqa: F401
    MSSQLQuery,
    MySQLQuery,
    OracleQuery,
    PostgreSQLQuery,
    Query,
    SQLLiteQuery,
    Table,
)
from pypika_tortoise.context import DEFAULT_SQL_CONTEXT, SqlContext  # noqa: F401
from pypika_tortoise.enums import Dialects
from pypika_tortoise.terms import Parameterizer

# the six query classes, in a fixed order used by every `d` selector
QS = (Query, MySQLQuery, PostgreSQLQuery, SQLLiteQuery, MSSQLQuery, OracleQuery)
DNAMES = ("generic", "mysql", "postgresql", "sqlite", "mssql", "oracle")
ND = 6


def qcls(d):
    return QS[d]


def dctx(d, parameterized=False):
    """The default context a top-level statement of dialect class `d` renders under."""
    c = QS[d].SQL_CONTEXT
    if parameterized:
        c = c.copy(parameterizer=Parameterizer())
    return c


def qchar(d):
    return QS[d].SQL_CONTEXT.quote_char


def aqchar(d):
    c = QS[d].SQL_CONTEXT
    return c.alias_quote_char or c.quote_char


def placeholder(d, idx):
    """Reference placeholder table (written from the dialects' documentation, not read from the library)."""
    if d == 1:
        return "%s"
    if d == 2:
        return "$" + str(idx)
    return "?"


def render(q, d=None, ctx=None):
    """get_sql of a statement/term; library exceptions propagate."""
    if ctx is not None:
        return q.get_sql(ctx)
    return q.get_sql(dctx(d))


def count_occ(hay, needle):
    """Number of (non-overlapping) occurrences, written so that it stays cheap on symbolic strings."""
    n = 0
    i = hay.find(needle)
    while i >= 0:
        n += 1
        i = hay.find(needle, i + len(needle))
    return n


def template_of(sql, probe):
    """Split a concrete rendering at the occurrences of a concrete probe."""
    return sql.split(probe)


def fill(parts, piece):
    return piece.join(parts)


# ---- concrete side computations ---------------------------------------------------------------
try:  # python3-vt (symbolic runs)
    from crosshair.tracers import NoTracing as _NoTracing
except Exception:  # /venv/bin/python (concrete replays): nothing to switch off
    import contextlib

    _NoTracing = contextlib.nullcontext

_CC: dict = {}


def concrete_cached(fn, *args):
    """fn(*args) for CONCRETE args only (probe renderings, templates): run outside CrossHair's tracer
    (native speed) and remembered across paths.  Never pass a symbolic value."""
    key = (fn.__module__, fn.__qualname__, args)
    if key not in _CC:
        with _NoTracing():
            _CC[key] = fn(*args)
    return _CC[key]
