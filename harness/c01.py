"""C01 - builder calls never alter the receiver or earlier-derived objects.

One inductive-step harness per @builder method: from a rich receiver state (every container the
builder methods extend is non-empty), call the method with symbolic arguments, branch a second
call off the same receiver, continue the first child, and require that every earlier object is
unchanged (structural snapshot; on a snapshot difference the renderings decide) and that the two
branches do not depend on the order in which they were made.
"""
from __future__ import annotations

from harness.common import *  # noqa: F401,F403
from harness.snapshot import _NoTracing, same_nt, snap, snap_nt
from pypika_tortoise import AliasedQuery, Case, Column, Field, JoinType, Order, Tuple
from pypika_tortoise import analytics as an
from pypika_tortoise import functions as fn
from pypika_tortoise.queries import CreateQueryBuilder, DropQueryBuilder, Join, JoinOn, JoinUsing
from pypika_tortoise.terms import (
    BetweenCriterion,
    BitwiseAndCriterion,
    NestedCriterion,
    Not,
    NullCriterion,
    PeriodCriterion,
    Rollup,
)
from pypika_tortoise.enums import Boolean, Equality

ASSUMPTIONS = [
    "observation = structural snapshot of the object graph (identical snapshot => identical SQL, parameters, metadata); "
    "when snapshots differ the renderings under the six dialect contexts, inline and parameterised, decide",
    "receiver states: the rich state of each class (all list/set-valued clause attributes non-empty) - histories longer "
    "than rich-state + 3 calls are covered only through the inductive reading",
    "argument objects are fresh per call and not observed (documented auto-alias side effect on arguments)",
    "immutable=False builders are outside the property",
]

T = lambda: Table("t")  # noqa: E731
U = lambda: Table("u")  # noqa: E731


# ---- receivers ---------------------------------------------------------------------------------
def r_select(d):
    t, u = T(), U()
    cte = QS[0].from_(Table("t")).select(Field("k"))  # (the CTE body refers to the main table: replace_table reaches it)
    q = (QS[d].with_(cte, "c1").from_(t).join(u).on(t.a == u.a)
         .select(t.a, fn.Sum(t.b).as_("s"), Case().when(t.c == 1, 2).else_(3))
         .where(t.b > 0).prewhere(t.c < 9).groupby(t.a).rollup(t.d)
         .having(fn.Count(t.c) > 1).orderby(t.a, order=Order.desc).limit(5).offset(2)
         .force_index("i1").use_index("i2").for_update(of=("t",)))
    if d == 2:
        q = q.distinct_on(t.e)
    if d == 1:
        q = q.modifier("SQL_CALC_FOUND_ROWS")
    if d == 4:
        q = q.top(3)
    return q


def r_insert(d):
    t = T()
    q = QS[d].into(t).columns("a", "b").insert(1, 2).on_conflict("a").do_update("b", 3)
    if d == 2:
        q = q.returning("a")
    return q


def r_insert_open(d):  # conflict target set, no handler yet
    return QS[d].into(T()).columns("a", "b").insert(1, 2).on_conflict("a")


def r_update(d):
    t = T()
    return QS[d].update(t).set(t.a, 1).where(t.b == 2)


def r_from_only(d):
    return QS[d].from_(T())


def r_empty(d):
    return QS[d]._builder()


def r_setop(d):
    t, u = T(), U()
    return QS[d].from_(t).select(t.a).union(QS[d].from_(u).select(u.a)).orderby(Field("a")).limit(4)


def r_create(d):
    return (QS[d].create_table("t").columns(Column("a", "INT"), Column("b", "INT"))
            .period_for("p", "s1", "e1").unique("a"))


def r_create_bare(d):
    return QS[d].create_table("t")


def r_drop(d):
    return QS[d].drop_table("t")


def r_drop_empty(d):
    return DropQueryBuilder()


def r_create_empty(d):
    return CreateQueryBuilder()


def r_load(d):
    return MySQLQuery.load("f").into("t")


def r_table(d):
    return Table("t", schema="sch")


def r_case(d):
    t = T()
    return Case().when(t.a == 1, 2).else_(3)


def r_agg(d):
    t = T()
    return fn.Sum(t.a).filter(t.b == 1)


def r_count(d):
    return fn.Count(T().a)


def r_analytic(d):
    t = T()
    return an.Rank().over(t.a).orderby(t.b)


def r_window(d):
    t = T()
    return an.Sum(t.a).over(t.b).orderby(t.c)


def r_ignore_nulls(d):
    t = T()
    return an.FirstValue(t.a).over(t.b)


def r_contains(d):
    return T().a.isin([1, 2])


# receivers for replace_table / as_
def r_terms(k):
    t, u = T(), U()
    if k == 0:
        return t.a
    if k == 1:
        return Tuple(t.a, 1, u.b)
    if k == 2:
        return t.a == u.b
    if k == 3:
        return t.a.between(t.b, 5)
    if k == 4:
        return t.a.bitwiseand(3)
    if k == 5:
        return Case().when(t.a == 1, t.b).else_(u.c)
    if k == 6:
        return t.a.isin([1, 2])
    if k == 7:
        return fn.Coalesce(t.a, u.b, 0)
    if k == 8:
        return NestedCriterion(Equality.eq, Boolean.and_, t.a, u.b, t.c)
    if k == 9:
        return Not(t.a == 1)
    if k == 10:
        return t.a.isnull()
    if k == 11:
        return t.a + u.b * 2
    if k == 12:
        return Join(t, JoinType.cross)
    if k == 13:
        return JoinOn(t, JoinType.inner, t.a == u.a)
    if k == 14:
        return JoinUsing(t, JoinType.inner, [Field("a"), Field("b")])
    if k == 15:
        return r_select(0)
    if k == 16:
        return r_setop(0)
    if k == 17:
        return AliasedQuery("aq", QS[0].from_(t).select(t.a))
    if k == 18:
        return -(t.a)
    raise AssertionError(k)


NTERMS = 19

# ---- cases: (receiver factory, call) -----------------------------------------------------------
# call(R, s, n, v): v = 1 uses the symbolic leaves, v = 2, 3 use distinct concrete ones


def leaf(s, v, base):
    return s if v == 1 else base + str(v)


def num(n, v):
    return n if v == 1 else 40 + v


def sub(v):
    return QS[0].from_(Table("x" + str(v))).select(Field("k"))


def sub3(v):  # same number of select items as r_select (set operations check the arity at render time)
    return QS[0].from_(Table("x" + str(v))).select(Field("k"), Field("l"), Field("m"))


CASES = {
    # --- QueryBuilder (any dialect class) on the rich SELECT ---
    "select": (r_select, lambda R, s, n, v: R.select(leaf(s, v, "c"), Field("z" + str(v)))),
    "select_star": (r_select, lambda R, s, n, v: R.select(Table("t").star if v == 1 else leaf(s, v, "c"))),
    "from_": (r_select, lambda R, s, n, v: R.from_(Table(leaf(s, v, "f")))),
    "from_subquery": (r_select, lambda R, s, n, v: R.from_(sub(v))),
    "join_on": (r_select, lambda R, s, n, v: R.join(Table("j" + str(v))).on(Table("j" + str(v)).k == leaf(s, v, "x"))),
    "join_using": (r_select, lambda R, s, n, v: R.join(Table("j" + str(v))).using(leaf(s, v, "k"))),
    "join_subquery": (r_select, lambda R, s, n, v: R.join(sub(v)).cross()),
    "where": (r_select, lambda R, s, n, v: R.where(Field("w") == leaf(s, v, "x"))),
    "prewhere": (r_select, lambda R, s, n, v: R.prewhere(Field("w") == leaf(s, v, "x"))),
    "having": (r_select, lambda R, s, n, v: R.having(fn.Max(Field("w")) == leaf(s, v, "x"))),
    "groupby": (r_select, lambda R, s, n, v: R.groupby(leaf(s, v, "g"), Field("g" + str(v)))),
    "orderby": (r_select, lambda R, s, n, v: R.orderby(leaf(s, v, "o"), order=Order.asc)),
    "rollup": (r_select, lambda R, s, n, v: R.rollup(Field("r" + str(v)), vendor=leaf(s, v, "x"))),
    "limit": (r_select, lambda R, s, n, v: R.limit(num(n, v))),
    "offset": (r_select, lambda R, s, n, v: R.offset(num(n, v))),
    "slice": (r_select, lambda R, s, n, v: R.slice(slice(num(n, v), None if v == 1 else 9))),
    "getitem": (r_select, lambda R, s, n, v: R[num(n, v):]),
    "force_index": (r_select, lambda R, s, n, v: R.force_index(leaf(s, v, "i"))),
    "use_index": (r_select, lambda R, s, n, v: R.use_index(leaf(s, v, "i"))),
    # (`of` stays concrete: for_update() puts the names in a set, and hashing a symbolic string enumerates it)
    "for_update": (r_select, lambda R, s, n, v: R.for_update(nowait=(n % 2 == 0) if v == 1 else (v == 2),
                                                             skip_locked=(n % 3 == 0) if v == 1 else False,
                                                             of=("t", "o" + str(v)))),
    "distinct": (r_select, lambda R, s, n, v: R.distinct()),
    "with_totals": (r_select, lambda R, s, n, v: R.with_totals()),
    "with_": (r_select, lambda R, s, n, v: R.with_(sub(v), leaf(s, v, "c"))),
    "into": (r_select, lambda R, s, n, v: R.into(Table(leaf(s, v, "n")))),
    "union": (r_select, lambda R, s, n, v: R.union(sub3(v))),
    "union_all": (r_select, lambda R, s, n, v: R.union_all(sub3(v))),
    "intersect": (r_select, lambda R, s, n, v: R.intersect(sub3(v))),
    "except_of": (r_select, lambda R, s, n, v: R.except_of(sub3(v))),
    "minus": (r_select, lambda R, s, n, v: R.minus(sub3(v))),
    # (the new table's name stays concrete: later select()/join() calls hash the table, which would enumerate a
    #  symbolic name; C16 covers symbolic names)
    "replace_table": (r_select, lambda R, s, n, v: R.replace_table(Table("t"), Table("nw" + str(v)))),
    "as_": (r_select, lambda R, s, n, v: R.as_(leaf(s, v, "al"))),
    # dialect-specific (guarded by attribute presence)
    "distinct_on": (r_select, lambda R, s, n, v: R.distinct_on(leaf(s, v, "d"))),
    "modifier": (r_select, lambda R, s, n, v: R.modifier(leaf(s, v, "M"))),
    "top": (r_select, lambda R, s, n, v: R.top(num(n, v))),
    "fetch_next": (r_select, lambda R, s, n, v: R.fetch_next(num(n, v))),
    # --- INSERT / UPDATE / DELETE states ---
    "columns": (r_insert, lambda R, s, n, v: R.columns(leaf(s, v, "c"))),
    "insert": (r_insert, lambda R, s, n, v: R.insert(leaf(s, v, "x"), num(n, v))),
    "replace": (r_insert, lambda R, s, n, v: R.replace(leaf(s, v, "x"), num(n, v))),
    "on_conflict": (r_insert, lambda R, s, n, v: R.on_conflict(leaf(s, v, "c"))),
    "do_update": (r_insert, lambda R, s, n, v: R.do_update(leaf(s, v, "c"), num(n, v))),
    "conflict_where": (r_insert, lambda R, s, n, v: R.where(Field("w") == leaf(s, v, "x"))),
    "do_nothing": (r_insert_open, lambda R, s, n, v: R.do_nothing()),
    "returning": (r_insert, lambda R, s, n, v: R.returning(leaf(s, v, "c"))),
    "set": (r_update, lambda R, s, n, v: R.set(leaf(s, v, "c"), num(n, v))),
    "update_from": (r_update, lambda R, s, n, v: R.from_(Table(leaf(s, v, "f")))),
    "update_join": (r_update, lambda R, s, n, v: R.join(Table("j" + str(v))).on(Table("j" + str(v)).k == leaf(s, v, "x"))),
    "delete": (r_from_only, lambda R, s, n, v: R.delete()),
    "update": (r_empty, lambda R, s, n, v: R.update(Table(leaf(s, v, "n")))),
    # --- set operation ---
    "so_orderby": (r_setop, lambda R, s, n, v: R.orderby(Field(leaf(s, v, "o")))),
    "so_limit": (r_setop, lambda R, s, n, v: R.limit(num(n, v))),
    "so_offset": (r_setop, lambda R, s, n, v: R.offset(num(n, v))),
    "so_union": (r_setop, lambda R, s, n, v: R.union(sub(v))),
    "so_union_all": (r_setop, lambda R, s, n, v: R.union_all(sub(v))),
    "so_intersect": (r_setop, lambda R, s, n, v: R.intersect(sub(v))),
    "so_except_of": (r_setop, lambda R, s, n, v: R.except_of(sub(v))),
    "so_minus": (r_setop, lambda R, s, n, v: R.minus(sub(v))),
    "so_as_": (r_setop, lambda R, s, n, v: R.as_(leaf(s, v, "al"))),
    # --- DDL / load ---
    "create_table": (r_create_empty, lambda R, s, n, v: R.create_table(leaf(s, v, "n"))),
    "ct_columns": (r_create, lambda R, s, n, v: R.columns(Column(leaf(s, v, "c"), "INT"), ("z" + str(v), "INT"))),
    "ct_period_for": (r_create, lambda R, s, n, v: R.period_for(leaf(s, v, "p"), "s2", "e2")),
    "ct_unique": (r_create, lambda R, s, n, v: R.unique(leaf(s, v, "c"), "b")),
    "ct_primary_key": (r_create, lambda R, s, n, v: R.primary_key(leaf(s, v, "c"))),
    "ct_as_select": (r_create_bare, lambda R, s, n, v: R.as_select(sub(v).where(Field("k") == leaf(s, v, "x")))),
    "ct_if_not_exists": (r_create, lambda R, s, n, v: R.if_not_exists()),
    "ct_temporary": (r_create, lambda R, s, n, v: R.temporary()),
    "ct_unlogged": (r_create, lambda R, s, n, v: R.unlogged()),
    "ct_with_system_versioning": (r_create, lambda R, s, n, v: R.with_system_versioning()),
    "drop_table": (r_drop_empty, lambda R, s, n, v: R.drop_table(leaf(s, v, "n"))),
    "if_exists": (r_drop, lambda R, s, n, v: R.if_exists()),
    "load": (r_load, lambda R, s, n, v: R.load(leaf(s, v, "f"))),
    "load_into": (r_load, lambda R, s, n, v: R.into(leaf(s, v, "n"))),
    # --- table / terms ---
    "table_for_": (r_table, lambda R, s, n, v: R.for_(Field("sys").between(leaf(s, v, "a"), "z"))),
    "table_for_portion": (r_table, lambda R, s, n, v: R.for_portion(Field("p").from_to(leaf(s, v, "a"), "z"))),
    "table_as_": (r_table, lambda R, s, n, v: R.as_(leaf(s, v, "al"))),
    "case_when": (r_case, lambda R, s, n, v: R.when(Field("a") == leaf(s, v, "x"), num(n, v))),
    "case_else_": (r_case, lambda R, s, n, v: R.else_(leaf(s, v, "x"))),
    "agg_filter": (r_agg, lambda R, s, n, v: R.filter(Field("a") == leaf(s, v, "x"))),
    "count_distinct": (r_count, lambda R, s, n, v: R.distinct()),
    "an_over": (r_analytic, lambda R, s, n, v: R.over(Field(leaf(s, v, "p")))),
    "an_orderby": (r_analytic, lambda R, s, n, v: R.orderby(Field(leaf(s, v, "o")), order=Order.desc)),
    "an_filter": (r_analytic, lambda R, s, n, v: R.filter(Field("a") == leaf(s, v, "x"))),
    "win_rows": (r_window, lambda R, s, n, v: R.rows(an.Preceding(num(n, v)), an.Following(2))),
    "win_range": (r_window, lambda R, s, n, v: R.range(an.Preceding(num(n, v)))),
    "ignore_nulls": (r_ignore_nulls, lambda R, s, n, v: R.ignore_nulls()),
    "negate": (r_contains, lambda R, s, n, v: R.negate()),
}


# ---- minimal receivers: the same calls from a state in which the containers are still EMPTY ------------------
# (a copy protocol that treats empty containers specially - "nothing to duplicate" - only shows from here)
def r_select_min(d):
    t = T()
    return QS[d].from_(t).select(t.a)


def r_insert_min(d):
    return QS[d].into(T()).insert(1, 2)


def r_update_min(d):
    t = T()
    return QS[d].update(t).set(t.a, 1)


def r_setop_min(d):
    t, u = T(), U()
    return QS[d].from_(t).select(t.a).union(QS[d].from_(u).select(u.a))


def r_case_min(d):
    return Case()


def r_agg_min(d):
    return fn.Sum(T().a)


def r_analytic_min(d):
    return an.Rank()


def r_window_min(d):
    return an.Sum(T().a)


MINIMAL = {r_select: r_select_min, r_insert: r_insert_min, r_update: r_update_min, r_setop: r_setop_min,
           r_create: r_create_bare, r_case: r_case_min, r_agg: r_agg_min, r_analytic: r_analytic_min,
           r_window: r_window_min}


def sub1(v):
    return QS[0].from_(Table("x" + str(v))).select(Field("k"))


def _minimal_cases():
    for name, (factory, call) in list(CASES.items()):
        if factory in MINIMAL:
            if name in ("union", "union_all", "intersect", "except_of", "minus"):
                # one select item on the minimal receiver: the operand needs one as well
                call = (lambda m: (lambda R, s, n, v: getattr(R, m)(sub1(v))))(name)
            CASES["min:" + name] = (MINIMAL[factory], call)


def _term_cases():
    for k in range(NTERMS):
        if k == 16:
            continue  # _SetOperation.replace_table is Term's non-builder default (returns self by design)
        CASES["rt_%02d" % k] = ((lambda k: (lambda d: r_terms(k)))(k),
                                lambda R, s, n, v: R.replace_table(Table("t"), Table(leaf(s, v, "n"))))
        if k not in (12, 13, 14):
            CASES["as_%02d" % k] = ((lambda k: (lambda d: r_terms(k)))(k), lambda R, s, n, v: R.as_(leaf(s, v, "al")))


_minimal_cases()
_term_cases()
CASE_NAMES = sorted(CASES)
# which cases make sense for which dialect class
ONLY = {"distinct_on": [2], "returning": [2], "modifier": [1], "top": [4], "fetch_next": [4], "load": [1], "load_into": [1]}
DIALECT_FREE = {"create_table", "drop_table", "if_exists", "table_for_", "table_for_portion", "table_as_", "case_when",
                "case_else_", "agg_filter", "count_distinct", "an_over", "an_orderby", "an_filter", "win_rows", "win_range",
                "ignore_nulls", "negate", "load", "load_into", "ct_columns", "ct_period_for", "ct_unique", "ct_primary_key",
                "ct_as_select", "ct_if_not_exists", "ct_temporary", "ct_unlogged", "ct_with_system_versioning"}


def allowed(name, d):
    if name.startswith("min:"):
        name = name[4:]
    if name in ONLY:
        return d in ONLY[name]
    if name in DIALECT_FREE or name.startswith("rt_") or name.startswith("as_"):
        return d == 0
    return True


def pin_d(d):
    if d == 0:
        return 0
    if d == 1:
        return 1
    if d == 2:
        return 2
    if d == 3:
        return 3
    if d == 4:
        return 4
    return 5


def renders(x):
    """Fallback observation: SQL under the six dialect contexts, inline and parameterised, plus metadata."""
    out = []
    for d in range(ND):
        for par in (False, True):
            ctx = dctx(d, par)
            try:
                sql = x.get_sql(ctx)
            except Exception as e:  # rendering guards (e.g. CASE without WHEN) are observations too
                sql = "EXC " + type(e).__name__
            out.append(sql)
            if par:
                out.append(list(ctx.parameterizer.values))
    out.append(repr(getattr(x, "alias", None)) if "alias" in getattr(x, "__dict__", {}) else "")
    return out


def renders_equal(a, b):
    if len(a) != len(b):
        return False
    for x, y in zip(a, b):
        if isinstance(x, list):
            if len(x) != len(y):
                return False
            for p, q in zip(x, y):
                if not (p is q or p == q):
                    return False
        elif not (x == y):
            return False
    return True


class Watch:
    """An earlier object together with what it looked like."""

    def __init__(self, label, obj, rebuild):
        self.label, self.obj, self.rebuild = label, obj, rebuild
        self.snap = snap_nt(obj)

    def unchanged(self):
        if same_nt(snap_nt(self.obj), self.snap):
            return True
        # snapshots differ: the renderings decide (against a freshly rebuilt twin)
        if self.rebuild is None:
            return False
        twin = self.rebuild()
        return renders_equal(renders(self.obj), renders(twin))


def fresh(factory):
    """Receiver factories are concrete: run them outside the tracer."""
    def make(d):
        with _NoTracing():
            return factory(d)
    return make


def step(name, ci, d, s, n, follow=None):
    cname = CASE_NAMES[ci]
    factory, call = CASES[cname]
    factory = fresh(factory)
    fcall = CASES[follow][1] if follow is not None else call
    R = factory(d)
    wR = Watch("receiver", R, lambda: factory(d))
    try:
        c1 = call(R, s, n, 1)
    except Exception as e:
        import traceback
        note("guard", type(e).__name__ + ": " + str(e) + " @ " + " <- ".join(
            "%s:%d" % (f.name, f.lineno) for f in traceback.extract_tb(e.__traceback__)[-6:]))
        return SKIP if wR.unchanged() else VIOL
    why = ""
    ok = True
    if c1 is R:
        ok, why = False, "the call returned the receiver itself"
    if ok and not wR.unchanged():
        ok, why = False, "receiver changed by the first call"
    w1 = Watch("first child", c1, lambda: call(factory(d), s, n, 1))
    c2 = None
    if ok:
        try:
            c2 = fcall(R, s, n, 2)
        except Exception as e:
            note("guard2", type(e).__name__)
        if not wR.unchanged():
            ok, why = False, "receiver changed by the second (branching) call"
        elif not w1.unchanged():
            ok, why = False, "first child changed by a sibling call on the receiver"
    if ok:
        w2 = Watch("second child", c2, lambda: fcall(factory(d), s, n, 2)) if c2 is not None else None
        try:
            fcall(c1, s, n, 3)
        except Exception as e:  # one-shot methods legitimately refuse a second application
            note("guard3", type(e).__name__)
        if not wR.unchanged():
            ok, why = False, "receiver changed by a call on its child"
        elif not w1.unchanged():
            ok, why = False, "child changed by a call made on it"
        elif w2 is not None and not w2.unchanged():
            ok, why = False, "sibling changed by a call on the first child"
    if ok and c2 is not None:
        # order independence of the two continuations
        R2 = factory(d)
        try:
            d2 = fcall(R2, s, n, 2)
            d1 = call(R2, s, n, 1)
            if not (same_nt(snap_nt(d1), snap_nt(c1)) and same_nt(snap_nt(d2), snap_nt(c2))):
                if not (renders_equal(renders(d1), renders(c1)) and renders_equal(renders(d2), renders(c2))):
                    ok, why = False, "the two continuations depend on the order in which they were made"
        except Exception as e:
            ok, why = False, "continuations raise in the other order: " + type(e).__name__
    note("case", cname)
    note("why", why)
    return verdict(ok, name, ci=ci, d=d, s=s, n=n)


@harness(
    prop="C01",
    cubes={"ci": range(len(CASE_NAMES))},
    bounds={"quick": {"L": 2, "N": 99}, "thorough": {"L": 3, "N": 999}},
    timeout={"quick": 150, "thorough": 900},
    witness=[dict(ci=CASE_NAMES.index("force_index"), d=1, s="ix", n=3), dict(ci=CASE_NAMES.index("rollup"), d=0, s="mysql", n=0),
             dict(ci=CASE_NAMES.index("case_when"), d=0, s="v", n=7), dict(ci=CASE_NAMES.index("so_union"), d=2, s="v", n=7)],
    doc="one step per builder method from the rich receiver of its class: call with symbolic (str len<=L, int 0..N) "
        "arguments, branch a second call off the receiver, continue the first child with the same method; all earlier "
        "objects unchanged; branches order-independent",
)
def c01_step(ci: int, d: int, s: str, n: int) -> int:
    """
    bound: len(s) <= L and 0 <= n <= N and 0 <= d <= 5
    """
    d = pin_d(d)
    if not allowed(CASE_NAMES[ci], d):
        return SKIP
    return step("c01_step", ci, d, s, n)


def pair_points(tier):
    """(case, follow-up case) pairs sharing a receiver family."""
    if tier != "thorough":
        # quick: every method followed by / branched with the container-extending core of its family
        core = {"select", "where", "orderby", "join_on", "insert", "set", "so_union", "so_orderby", "ct_columns", "case_when",
                "an_over", "min:select", "min:orderby", "min:insert", "min:so_union", "min:case_when", "min:an_over",
                "min:force_index", "min:modifier", "min:distinct_on"}
    else:
        core = None
    pts = []
    for i, a in enumerate(CASE_NAMES):
        for j, b in enumerate(CASE_NAMES):
            if i == j or CASES[a][0] is not CASES[b][0]:
                continue
            if a.startswith("rt_") or a.startswith("as_"):
                continue
            if core is not None and b not in core:
                continue
            pts.append((i, j))
    return pts


@harness(
    prop="C01",
    cubes=lambda tier: {"pair": pair_points(tier)},
    bounds={"quick": {"L": 1, "N": 9}, "thorough": {"L": 2, "N": 99}},
    timeout={"quick": 300, "thorough": 900},
    witness=[dict(pair=(CASE_NAMES.index("force_index"), CASE_NAMES.index("select")), d=1, s="i", n=3)],
    doc="method m on the receiver, then a different method m' both branched off the same receiver and continued on the "
        "first child (all ordered pairs within a receiver family in thorough; m' over the container-extending core in quick)",
)
def c01_pairs(pair: tuple, d: int, s: str, n: int) -> int:
    """
    bound: len(s) <= L and 0 <= n <= N and 0 <= d <= 5
    """
    d = pin_d(d)
    a, b = CASE_NAMES[pair[0]], CASE_NAMES[pair[1]]
    if not allowed(a, d) or not allowed(b, d):
        return SKIP
    return step("c01_pairs", pair[0], d, s, n, follow=b)


def extra_evidence():
    """Which of the @builder methods found in the live package are exercised by the case catalogue (concrete run)."""
    import inspect
    import sys
    from harness import introspect

    wrapped = {}
    for qn, cls, name in introspect.defining_builder_methods():
        w = introspect.wrapped(inspect.getattr_static(cls, name))
        wrapped[w.__code__] = qn.split(".")[-1] + "." + name
    hit = set()

    def prof(frame, event, arg):
        if event == "call" and frame.f_code in wrapped:
            hit.add(wrapped[frame.f_code])

    for name in CASE_NAMES:
        fac, call = CASES[name]
        for d in range(ND):
            if not allowed(name, d):
                continue
            try:
                R = fac(d)
                sys.setprofile(prof)
                try:
                    call(R, "zz", 3, 1)
                finally:
                    sys.setprofile(None)
            except Exception:
                pass
    return dict(builder_methods_defined=len(wrapped), builder_methods_exercised=len(hit),
                not_exercised=sorted(set(wrapped.values()) - hit), cases=len(CASE_NAMES))
