"""C10 - a subquery renders the same wherever it is embedded.

Inner queries are assembled from flags (which clauses carry aliased terms, nesting, join,
pagination); the outer statement embeds them at one of nine positions.  The text emitted for the
subquery must be its stand-alone rendering in the same dialect (parameter numbering continued),
wrapped / aliased as the position requires - found with a probe template.
"""
from __future__ import annotations

from harness.common import *  # noqa: F401,F403
from harness.snapshot import _NoTracing
from pypika_tortoise import AliasedQuery, Field, Order
from pypika_tortoise import functions as fn
from pypika_tortoise.terms import Parameterizer

ASSUMPTIONS = [
    "the outer skeletons carry their own values only before the embedding position, so that numbered placeholders of "
    "the stand-alone rendering line up by pre-loading the parameterizer (no text rewriting)",
    "set-operation operands are bracketed or not according to the dialect class (MySQL does not bracket)",
]

NPOS = 10


def pin(v, n):
    for i in range(n):
        if v == i:
            return i
    return n - 1


def make_inner(d, flags, leaf, native=False):
    """Inner query built with the GENERIC classes (the outer dialect must govern it), or - native - with the outer
    dialect's own classes."""
    a_sel, a_where, a_group, a_having, a_order, nested, joined, paged = flags
    t, u = Table("t"), Table("u")
    k = t.k.as_("kk") if a_sel else t.k
    QI = QS[d] if native else QS[0]
    q = QI.from_(t)
    if joined:
        q = q.join(u).on((t.k == u.k).as_("onx") if a_where else (t.k == u.k))
    q = q.select(k, fn.Max(t.v).as_("mx") if a_sel else fn.Max(t.v))
    w = t.b.as_("bx") if a_where else t.b
    q = q.where(w == leaf)
    if nested:
        q = q.where(t.c.isin(QI.from_(u).select(u.c.as_("cc") if a_sel else u.c).where(u.w > 3)))
    q = q.groupby(k if a_group else t.k)
    if a_having:
        q = q.having((fn.Count(t.v).as_("cn") > 1))
    q = q.orderby(k if a_order else t.k, order=Order.desc)
    if paged:
        q = q.limit(5)
    return q


def probe_inner():
    return QS[0].from_(Table("pp")).select(Field("zz"), Field("yy"))


def embed(pos, d, inner):
    Q = QS[d]
    o = Table("o")
    if pos == 0:  # FROM source
        inner = inner.as_("s1")
        return Q.from_(inner).select(inner.k)
    if pos == 1:  # JOIN source
        inner = inner.as_("s1")
        return Q.from_(o).join(inner).on(o.k == inner.k).select(o.k)
    if pos == 2:  # IN operand
        return Q.from_(o).select(o.k).where(o.w == "before").where(o.k.isin(inner))
    if pos == 3:  # comparison operand
        return Q.from_(o).select(o.k).where(o.w == "before").where(o.k == inner)
    if pos == 4:  # select-list item
        return Q.from_(o).select(o.k, inner)
    if pos == 5:  # CTE body
        return Q.with_(inner, "c1").from_(AliasedQuery("c1")).select(Field("k"))
    if pos == 6:  # set-operation operand
        return Q.from_(o).select(o.k, o.v).where(o.w == "before").union(inner)
    if pos == 7:  # operand inside a JOIN ... ON criterion
        u2 = Table("u2")
        return Q.from_(o).join(u2).on((o.k == u2.k) & u2.k.isin(inner)).select(o.k)
    if pos == 8:  # INSERT ... VALUES ((subquery))
        return Q.into(o).insert(1, inner)
    if pos == 9:  # IN operand inside a bracketed mixed AND/OR group of the outer WHERE
        return Q.from_(o).select(o.k).where((o.k.isin(inner) | (o.c == o.e)) & (o.d == o.f))
    raise AssertionError(pos)


def top_ctx(d, parameterizer=None):
    """The context a top-level statement of class d actually renders under (SQL Server / Oracle builders switch the
    GROUP BY alias policy off for the whole tree)."""
    c = dctx(d)
    if d in (4, 5):
        c = c.copy(groupby_alias=False)
    if parameterizer is not None:
        c = c.copy(parameterizer=parameterizer)
    return c


def count_ph(text, d):
    if d == 1:
        return text.count("%s")
    if d == 2:
        return text.count("$")
    return text.count("?")


def check(name, pos, d, par, flags, leaf, args, native=False):
    inner_p = probe_inner()
    if par:
        ctx_p = dctx(d, True)
        out_probe = embed(pos, d, inner_p).get_sql(ctx_p)
    else:
        out_probe = embed(pos, d, inner_p).get_sql(dctx(d))
    probe_text = inner_p.get_sql(top_ctx(d))
    parts = out_probe.split(probe_text)
    if len(parts) != 2:
        note("why", "probe layout: %d parts" % len(parts))
        return SKIP
    prefix, suffix = parts
    inner = make_inner(d, flags, leaf, native)
    if par:
        pre = Parameterizer()
        for i in range(count_ph(prefix, d)):
            pre.create_param("dummy")
        standalone = make_inner(d, flags, leaf, native).get_sql(top_ctx(d, pre))
        out = embed(pos, d, inner).get_sql(dctx(d, True))
    else:
        standalone = make_inner(d, flags, leaf, native).get_sql(top_ctx(d))
        outer = embed(pos, d, inner)
        out = outer.get_sql(dctx(d))
        if pos == 6:
            # a set operation is usually rendered with str(), which starts from the default context
            via_str = str(outer)
            if not (via_str == out):
                note("standalone", standalone)
                note("embedded", via_str)
                note("expected", out)
                return verdict(False, name, **args)
    note("standalone", standalone)
    note("embedded", out)
    exp = prefix + standalone + suffix
    note("expected", exp)
    return verdict(out == exp, name, **args)


@harness(
    prop="C10",
    cubes={"pos": range(NPOS), "d": range(ND), "par": [0, 1]},
    bounds={"quick": {}, "thorough": {}},
    timeout={"quick": 200, "thorough": 600},
    witness=[dict(pos=2, d=2, par=1, nat=False, f0=True, f1=True, f2=True, f3=False, f4=True, f5=True, f6=False, f7=True),
             dict(pos=5, d=1, par=0, nat=False, f0=False, f1=False, f2=False, f3=False, f4=False, f5=False, f6=True, f7=False),
             dict(pos=6, d=5, par=0, nat=True, f0=True, f1=False, f2=True, f3=False, f4=False, f5=False, f6=False, f7=False),
             dict(pos=9, d=0, par=0, nat=False, f0=False, f1=False, f2=False, f3=False, f4=False, f5=True, f6=False, f7=False)],
    doc="inner query from 8 flags (aliased select / where / group by / having / order by terms, nested subquery, join, "
        "limit; built with the generic or with the outer dialect's own classes) x 10 embedding positions x 6 dialect classes x "
        "inline/parameterised; set operations also through str()",
)
def c10_embed(pos: int, d: int, par: int, nat: bool, f0: bool, f1: bool, f2: bool, f3: bool, f4: bool, f5: bool, f6: bool, f7: bool) -> int:
    flags = (bool(f0), bool(f1), bool(f2), bool(f3), bool(f4), bool(f5), bool(f6), bool(f7))
    nat = bool(nat)
    args = dict(pos=pos, d=d, par=par, nat=nat, f0=flags[0], f1=flags[1], f2=flags[2], f3=flags[3], f4=flags[4], f5=flags[5],
                f6=flags[6], f7=flags[7])
    with _NoTracing():
        return check("c10_embed", pos, d, par, flags, "lf", args, native=nat)


@harness(
    prop="C10",
    cubes={"pos": range(NPOS), "d": range(ND)},
    bounds={"quick": {"L": 1}, "thorough": {"L": 3}},
    timeout={"quick": 200, "thorough": 1500},
    witness=[dict(pos=0, d=0, s="'"), dict(pos=6, d=1, s="*")],
    doc="a plain inner query (no aliased clause terms) with a symbolic string value (len<=L) at every position x dialect, inline",
)
def c10_embed_leaf(pos: int, d: int, s: str) -> int:
    """
    bound: len(s) <= L
    """
    if s == "*":
        s = "*"
    flags = (False, False, False, False, False, False, False, True)
    return check("c10_embed_leaf", pos, d, 0, flags, s, dict(pos=pos, d=d, s=s))
