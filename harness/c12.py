"""C12 - aliases are emitted exactly once, where they define a name, for every term kind.

Every Term subclass of the live package is instantiated (signature-driven factory + a short
override table), given an alias, and placed at a defining position (select list) and at operand
positions; the rendering is compared with the rendering of the same term without alias.
"""
from __future__ import annotations

import inspect

from harness import introspect
from harness.common import *  # noqa: F401,F403
from harness.snapshot import _NoTracing
from pypika_tortoise import Case, Field, Not
from pypika_tortoise import functions as fn
from pypika_tortoise.enums import Boolean, Equality
from pypika_tortoise.terms import Array, NestedCriterion, Term, ValueWrapper

ASSUMPTIONS = [
    "term classes are taken from the live package (subclasses of Term found by introspection); abstract ones (Term, "
    "Criterion, RangeCriterion) are skipped; constructor arguments come from a candidate list tried in order",
    "defining position checked for every class: the select list (FROM/JOIN sources, RETURNING and DISTINCT ON are "
    "covered by C07/C10); operand positions: arithmetic operand, comparison operand, function argument, CASE result, IN "
    "item, BETWEEN bound, NOT operand, unary minus operand, GROUP BY / ORDER BY term not defined by the select list",
    "alias quoting itself is C07's subject: here the alias is 'al' in the sweep and a symbolic string for a few classes",
]


def term_classes():
    out = []
    for qn, c in sorted(introspect.classes().items()):
        # (Star: "* AS x" is not SQL - an alias on a star is outside the domain)
        if inspect.isclass(c) and issubclass(c, Term) and c.__name__ not in ("Term", "Criterion", "RangeCriterion", "Star"):
            out.append((qn, c))
    return out


CLASSES = term_classes()


def extra_terms():
    """Term configurations that the default constructor arguments do not reach."""
    from pypika_tortoise import Schema
    from pypika_tortoise import analytics as an
    from pypika_tortoise.terms import AggregateFunction, Function
    t = Table("t", alias="ta")
    return [
        ("Function+schema", lambda: Function("norm", Field("a"), schema=Schema("util"))),
        ("AggregateFunction+schema", lambda: AggregateFunction("SUMX", Field("a"), schema=Schema("util"))),
        ("Sum+filter", lambda: fn.Sum(Field("a")).filter(Field("b") == 1)),
        ("Rank+over", lambda: an.Rank().over(Field("a")).orderby(Field("b"))),
        ("Sum+window", lambda: an.Sum(Field("a")).over(Field("b")).rows(an.Preceding(1))),
        ("Count+distinct", lambda: fn.Count(Field("a")).distinct()),
        ("Field+aliased-table", lambda: Field("a", table=t)),
        ("Cast", lambda: fn.Cast(Field("a"), "INT")),
        ("Extract", lambda: fn.Extract("YEAR", Field("a"))),
        ("ValueWrapper+int", lambda: ValueWrapper(7)),      # constants: become placeholders under a parameterizer
        ("ValueWrapper+str", lambda: ValueWrapper("v")),
        ("Array+constants", lambda: Array(1, 2)),
    ]


EXTRAS = extra_terms()


def cands():
    a, b, c = Field("a"), Field("b"), Field("c")
    return [(), (a,), (a, b), (a, b, c), ("x",), ("x", a), ("x", a, b), (a, "x"), (a, 2), ("day", a), (a, b, "x"),
            ("x", a, b, c)]


def make_term(ci):
    if ci >= len(CLASSES):
        return EXTRAS[ci - len(CLASSES)][1]()
    qn, cls = CLASSES[ci]
    name = cls.__name__
    t = Table("t")
    from pypika_tortoise.queries import QueryBuilder, _SetOperation
    if name == "Case":
        return Case().when(Field("a") == 1, 2).else_(3)
    if name == "NestedCriterion":
        return NestedCriterion(Equality.eq, Boolean.and_, Field("a"), Field("b"), Field("c"))
    if inspect.isclass(cls) and issubclass(cls, QueryBuilder):
        q = cls().from_(t).select(Field("a"))
        return q
    if cls is _SetOperation:
        return QS[0].from_(t).select(Field("a")).union(QS[0].from_(Table("u")).select(Field("a")))
    for args in cands():
        try:
            x = cls(*args)
            x.get_sql(DEFAULT_SQL_CONTEXT)
            return x
        except Exception:
            continue
    return None


NPOS = 15


def place(pos, d, term):
    """Statement of class d with `term` at position pos (0 = select list = defining)."""
    Q = QS[d]
    t = Table("t")
    z = Field("z")
    base = Q.from_(t)
    if pos == 0:
        return base.select(z, term)
    if pos == 1:
        return base.select(term + 1)
    if pos == 2:
        return base.select(z).where(z == term)
    if pos == 3:
        return base.select(fn.Coalesce(term, 1))
    if pos == 4:
        return base.select(Case().when(z == 1, term).else_(0))
    if pos == 5:
        return base.select(z).where(z.isin([term, 1]))
    if pos == 6:
        return base.select(z).where(z.between(term, 9))
    if pos == 7:
        return base.select(z).where(Not(term))
    if pos == 8:
        return base.select(-term)
    if pos == 9:
        return base.select(z).groupby(term)
    if pos == 10:
        return base.select(z).orderby(term)
    if pos == 11:
        return base.select(Case().when(term, 1).else_(0))
    u = Table("u")
    if pos == 12:  # WHERE operand of an UPDATE ... FROM
        return Q.update(t).set("x", 1).from_(u).where(z == term)
    if pos == 13:  # ORDER BY of an UPDATE ... FROM (rendered by the MySQL / PostgreSQL / SQLite builders)
        return Q.update(t).set("x", 1).from_(u).where(z == 1).orderby(term)
    if pos == 14:  # ON criterion of an UPDATE ... JOIN
        return Q.update(t).join(u).on(z == term).set("x", 1)
    raise AssertionError(pos)


def with_alias(term, alias):
    if hasattr(type(term), "as_"):
        return term.as_(alias)
    return None


def check(name, ci, pos, d, alias, args):
    plain = make_term(ci)
    if plain is None:
        return SKIP
    aliased_src = make_term(ci)
    aliased = with_alias(aliased_src, alias)
    if aliased is None:
        return SKIP
    try:
        out_plain = place(pos, d, plain).get_sql(dctx(d))
    except Exception as e:
        note("guard", type(e).__name__)
        return SKIP
    try:
        out_alias = place(pos, d, aliased).get_sql(dctx(d))
    except Exception as e:
        note("why", "aliased term raised " + type(e).__name__ + ": " + str(e)[:80])
        return verdict(False, name, **args)
    q = aqchar(d)
    suffix = ' FROM ' + qchar(d) + "t" + qchar(d)
    note("plain", out_plain)
    note("aliased", out_alias)
    if pos == 0:
        if not out_plain.endswith(suffix):
            return SKIP
        exp = out_plain[:len(out_plain) - len(suffix)] + " " + q + alias.replace(q, q + q) + q + suffix
        note("expected", exp)
        if not (out_alias == exp):
            return verdict(False, name, **args)
    elif not (out_alias == out_plain):
        return verdict(False, name, **args)
    # the same under a parameterizer (constants become placeholders; aliases are not values)
    try:
        p_plain = place(pos, d, plain).get_sql(dctx(d, True))
        p_alias = place(pos, d, aliased).get_sql(dctx(d, True))
    except Exception as e:
        note("why", "parameterised rendering raised " + type(e).__name__ + ": " + str(e)[:80])
        return verdict(False, name, **args)
    note("plain_parameterised", p_plain)
    note("aliased_parameterised", p_alias)
    if pos == 0:
        if not p_plain.endswith(suffix):
            return verdict(False, name, **args)
        exp = p_plain[:len(p_plain) - len(suffix)] + " " + q + alias.replace(q, q + q) + q + suffix
        note("expected_parameterised", exp)
        return verdict(p_alias == exp, name, **args)
    return verdict(p_alias == p_plain, name, **args)


def pin(v, n):
    for i in range(n):
        if v == i:
            return i
    return n - 1


@harness(
    prop="C12",
    cubes={"ci": range(len(CLASSES) + len(EXTRAS))},
    bounds={"quick": {}, "thorough": {}},
    timeout={"quick": 120, "thorough": 300},
    witness=[dict(ci=[c.__name__ for _, c in CLASSES].index("Field"), pos=0, d=2),
             dict(ci=[c.__name__ for _, c in CLASSES].index("ArithmeticExpression"), pos=3, d=1)],
    doc="every Term subclass of the live package x 15 positions (select list = defining; 14 operand positions incl. UPDATE..FROM / UPDATE..JOIN clauses) x 6 dialect "
        "classes, alias 'al': defining => alias appended once right after the term; operand => no trace of the alias",
)
def c12_positions(ci: int, pos: int, d: int) -> int:
    """
    bound: 0 <= pos <= 14 and 0 <= d <= 5
    """
    pos, d = pin(pos, NPOS), pin(d, 6)
    with _NoTracing():
        cname = CLASSES[ci][1].__name__ if ci < len(CLASSES) else EXTRAS[ci - len(CLASSES)][0]
        note("class", cname)
        return check("c12_positions", ci, pos, d, "al", dict(ci=ci, pos=pos, d=d, cls=cname))


SYM_CLASSES = ["Field", "ArithmeticExpression", "Function", "Case", "BasicCriterion", "Max", "Count", "Cast"]


@harness(
    prop="C12",
    cubes={"k": range(len(SYM_CLASSES)), "pos": [0, 1, 2, 3], "d": [0, 1, 2, 5]},
    bounds={"quick": {"L": 2}, "thorough": {"L": 3}},
    timeout={"quick": 120, "thorough": 600},
    witness=[dict(k=0, pos=0, d=2, alias='a"')],
    doc="eight common term classes with a symbolic alias (any string, 1..L): select list, arithmetic / comparison "
        "operand, function argument",
)
def c12_symbolic_alias(k: int, pos: int, d: int, alias: str) -> int:
    """
    bound: 1 <= len(alias) <= L
    """
    if d == 5 and '"' in alias:
        return SKIP
    ci = [c.__name__ for _, c in CLASSES].index(SYM_CLASSES[k])
    return check("c12_symbolic_alias", ci, pos, d, alias, dict(k=k, pos=pos, d=d, alias=alias, cls=SYM_CLASSES[k]))


@harness(
    prop="C12",
    cubes={"d": range(ND)},
    bounds={"quick": {}, "thorough": {}},
    timeout={"quick": 120, "thorough": 300},
    witness=[dict(d=4, kind=1, in_select=True, clause=0, setop=False, other_case=False),
             dict(d=5, kind=0, in_select=True, clause=0, setop=True, other_case=False),
             dict(d=2, kind=2, in_select=True, clause=1, setop=False, other_case=True)],
    doc="GROUP BY / ORDER BY referring to an aliased term: the alias is written only if the select list defines it (and the "
        "dialect allows GROUP BY aliases), otherwise the full expression, never with an alias suffix",
)
def c12_references(d: int, kind: int, in_select: bool, clause: int, setop: bool, other_case: bool) -> int:
    """
    bound: 0 <= kind <= 3 and 0 <= clause <= 1
    """
    kind, clause, in_select, setop, other_case = pin(kind, 4), pin(clause, 2), bool(in_select), bool(setop), bool(other_case)
    with _NoTracing():
        t = Table("t")
        if kind == 0:
            term = Field("a")
        elif kind == 1:
            term = fn.Max(Field("a"))
        elif kind == 2:
            term = Field("a") + Field("b")
        else:
            term = Case().when(Field("a") == 1, 2).else_(3)
        expr = term.get_sql(dctx(d))
        al = term.as_("al")
        q = QS[d].from_(t).select(Field("z"))
        if in_select:
            # other_case: the select list defines "AL"; the GROUP BY / ORDER BY term is aliased "al" - a different name
            q = q.select(term.as_("AL") if other_case else al)
        q = q.groupby(al) if clause == 0 else q.orderby(al)
        if setop:
            # as the first operand of a set operation rendered through str() (which starts from the default context)
            other = QS[d].from_(Table("u")).select(Field("z"), Field("y")) if in_select else QS[d].from_(Table("u")).select(Field("z"))
            sql = str(q.union(other))
        else:
            sql = q.get_sql(dctx(d))
        kw = " GROUP BY " if clause == 0 else " ORDER BY "
        tail = sql[sql.index(kw) + len(kw):]
        if setop:
            cut = tail.find(" UNION ")
            tail = tail[:cut]
            if d != 1 and tail.endswith(")"):  # (MySQL does not bracket set-operation operands)
                tail = tail[:-1]
        aq = aqchar(d)
        if in_select and not other_case and not (clause == 0 and d in (4, 5)):
            want = [aq + "al" + aq, expr]  # alias reference (or, harmlessly, the full expression)
        else:
            want = [expr]
        note("sql", sql)
        note("clause_text", tail)
        note("accepted", want)
    return verdict(tail in want, "c12_references", d=d, kind=kind, in_select=in_select, clause=clause, setop=setop,
                   other_case=other_case)


@harness(
    prop="C12",
    cubes={"d": range(ND)},
    bounds={"quick": {}, "thorough": {}},
    timeout={"quick": 120, "thorough": 300},
    witness=[dict(d=0, kind=0, where=0), dict(d=1, kind=2, where=1), dict(d=5, kind=1, where=2)],
    doc="ORDER BY of a set operation referring to an aliased term: the alias may be written only if the FIRST member's "
        "select list defines it (the first member names the result columns); otherwise the full expression; through str()",
)
def c12_setop_order(d: int, kind: int, where: int) -> int:
    """
    bound: 0 <= kind <= 2 and 0 <= where <= 2
    """
    kind, where = pin(kind, 3), pin(where, 3)
    with _NoTracing():
        t, u = Table("t"), Table("u")
        if kind == 0:
            term = Field("a")
        elif kind == 1:
            term = fn.Max(Field("a"))
        else:
            term = Field("a") + Field("b")
        expr = term.get_sql(dctx(d))
        al = term.as_("al")
        # where: 0 = the first member defines "al", 1 = only the second member does, 2 = nobody does
        first = QS[d].from_(t).select(Field("z"), al if where == 0 else Field("y"))
        second = QS[d].from_(u).select(Field("z"), term.as_("al") if where == 1 else Field("y"))
        sql = str(first.union(second).orderby(al))
        tail = sql[sql.rindex(" ORDER BY ") + len(" ORDER BY "):]
        aq = aqchar(d)
        want = [aq + "al" + aq, expr] if where == 0 else [expr]
        note("sql", sql)
        note("clause_text", tail)
        note("accepted", want)
    return verdict(tail in want, "c12_setop_order", d=d, kind=kind, where=where)
