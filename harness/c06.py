"""C06 - operator grouping of the expression tree survives rendering.

Trees are built through the public operators of the real term classes; the rendering is lexed
and parsed by the reference precedence parser and must give back the built tree up to the
re-associations the property allows (oracles.exprparser.nf).
"""
from __future__ import annotations

from harness.common import *  # noqa: F401,F403
from oracles.exprparser import nf, parse
from pypika_tortoise import Case, Field
from pypika_tortoise import functions as fn
from pypika_tortoise.terms import ValueWrapper

ASSUMPTIONS = [
    "reference grammar: OR < XOR < AND < NOT < comparison/IN/BETWEEN/IS NULL < +,- < *,/ < unary minus; binary operators "
    "left-associative; '--' and '/*' open comments",
    "numeric literal leaves are represented by -3 / 0 / 3 according to the sign class of the symbolic n",
    "trees of depth <= 2 below the root (quick) / <= 3 (thorough); deeper trees are covered only through the inductive "
    "reading of the (parent, child, position) step, which is an argument of DESIGN.md, not a solver result",
    "ill-typed combinations that Python's operators reject (e.g. `(a+b) & c`) are outside the domain",
]

BIN = {0: "+", 1: "-", 2: "*", 3: "/", 4: "=", 5: "<>", 6: ">", 7: ">=", 8: "<", 9: "<=", 10: "AND", 11: "OR", 12: "XOR"}
K_NOT, K_NEG, K_FN, K_CASE, K_IN, K_BETWEEN, K_ISNULL, K_FIELD, K_LIT = 13, 14, 15, 16, 17, 18, 19, 20, 21
NKINDS = 22
ARITY = {K_NOT: 1, K_NEG: 1, K_FN: 1, K_CASE: 3, K_IN: 2, K_BETWEEN: 3, K_ISNULL: 1}


def lit(n):
    t = ValueWrapper(n)
    if n < 0:
        return t, ("neg", ("num", str(-n)))
    return t, ("num", str(n))


def fld(name):
    return Field(name), ("id", name)


def mk(kind, ops):
    """(term, tree) for a node of `kind` over operand pairs `ops` [(term, tree), ...]; None if ill-typed."""
    if kind in BIN:
        (a, ta), (b, tb) = ops[0], ops[1]
        try:
            if kind == 0:
                t = a + b
            elif kind == 1:
                t = a - b
            elif kind == 2:
                t = a * b
            elif kind == 3:
                t = a / b
            elif kind == 4:
                t = a == b
            elif kind == 5:
                t = a != b
            elif kind == 6:
                t = a > b
            elif kind == 7:
                t = a >= b
            elif kind == 8:
                t = a < b
            elif kind == 9:
                t = a <= b
            elif kind == 10:
                t = a & b
            elif kind == 11:
                t = a | b
            else:
                t = a ^ b
        except TypeError:
            return None
        return t, ("bin", BIN[kind], ta, tb)
    if kind == K_NOT:
        a, ta = ops[0]
        return ~a, ("not", ta)
    if kind == K_NEG:
        a, ta = ops[0]
        return -a, ("neg", ta)
    if kind == K_FN:
        a, ta = ops[0]
        return fn.Abs(a), ("fn", "ABS", (ta,))
    if kind == K_CASE:
        (w, tw), (th, tth), (e, te) = ops[0], ops[1], ops[2]
        return Case().when(w, th).else_(e), ("case", ((tw, tth),), te)
    if kind == K_IN:
        (a, ta), (b, tb) = ops[0], ops[1]
        return a.isin([b, 7]), ("in", ta, (tb, ("num", "7")), False)
    if kind == K_BETWEEN:
        (a, ta), (lo, tlo), (hi, thi) = ops[0], ops[1], ops[2]
        return a.between(lo, hi), ("between", ta, tlo, thi)
    if kind == K_ISNULL:
        a, ta = ops[0]
        return a.isnull(), ("isnull", ta)
    raise AssertionError(kind)


def arity(kind):
    return 2 if kind in BIN else ARITY[kind]


def node(kind, n, unary_on_lit, depth, kind2, names):
    """Child of `kind`; its own operands are leaves (or, one level deeper, a node of kind2 at the first operand)."""
    if kind == K_FIELD:
        return fld(names[0])
    if kind == K_LIT:
        return lit(n)
    ar = arity(kind)
    if depth > 0 and kind2 is not None:
        first = node(kind2, n, unary_on_lit, depth - 1, None, names[1:])
        if first is None:
            return None
    elif ar == 1:
        first = lit(n) if unary_on_lit else fld(names[0])
    else:
        first = fld(names[0])
    ops = [first]
    if ar >= 2:
        ops.append(lit(n) if not (depth > 0 and kind2 is not None) else fld(names[0]))
    if ar >= 3:
        ops.append(fld(names[0] + "2"))
    return mk(kind, ops)


def rep(n):
    """Sign-class representative of the literal.  Only the sign class of a numeric literal can matter for grouping
    and token fusion; a symbolic digit inside the text makes the reference parser fork at every character
    (measured: >1000 paths per job), so the literal text is made concrete per class."""
    if n < 0:
        return -3
    if n == 0:
        return 0
    return 3


def judge(term, tree, name, **args):
    out = term.get_sql(dctx(args["d"]))
    note("sql", out)
    got = parse(out)
    note("built", repr(nf(tree)))
    if got is None:
        note("parsed", None)
        return verdict(False, name, **args)
    note("parsed", repr(nf(got)))
    return verdict(nf(got) == nf(tree), name, **args)


@harness(
    prop="C06",
    cubes={"p": range(20), "d": range(ND)},
    bounds={"quick": {"N": 9, "FULLD": 0}, "thorough": {"N": 99, "FULLD": 1}},
    timeout={"quick": 300, "thorough": 900},
    witness=[dict(p=2, d=0, c=0, pos=0, n=3, ul=False), dict(p=10, d=1, c=11, pos=1, n=-2, ul=True),
             dict(p=13, d=0, c=4, pos=0, n=1, ul=False)],
    doc="every (parent kind p, child kind c, operand position pos) with leaf grandchildren (field / int literal -N..N, "
        "sign symbolic); 20 parent kinds x 22 child kinds x 6 dialect classes (quick tier: the literal's sign class and "
        "the unary-on-literal variant only under the generic and MySQL classes, positive literal elsewhere); rendering "
        "re-parsed by the reference parser",
)
def c06_parent_child(p: int, d: int, c: int, pos: int, n: int, ul: bool) -> int:
    """
    bound: 0 <= c <= 21 and 0 <= pos <= 2
    bound: -N <= n <= N
    bound: d < 2 or FULLD == 1 or (n == 3 and not ul)
    """
    n = rep(n)
    if pos >= arity(p):
        return SKIP
    child = node(c, n, ul, 0, None, ["x"])
    if child is None:
        return SKIP
    ops = []
    for i in range(arity(p)):
        if i == pos:
            ops.append(child)
        else:
            ops.append(fld("s" + str(i)))
    built = mk(p, ops)
    if built is None:
        return SKIP
    return judge(built[0], built[1], "c06_parent_child", p=p, d=d, c=c, pos=pos, n=n, ul=ul)


def _spine(name, p, c, d, g, pos, n, ul):
    n = rep(n)
    if pos >= arity(p):
        return SKIP
    child = node(c, n, ul, 1, g, ["x", "y"])
    if child is None:
        return SKIP
    ops = []
    for i in range(arity(p)):
        if i == pos:
            ops.append(child)
        else:
            ops.append(fld("s" + str(i)))
    built = mk(p, ops)
    if built is None:
        return SKIP
    return judge(built[0], built[1], name, p=p, c=c, d=d, g=g, pos=pos, n=n, ul=ul)


ARITH = [0, 1, 2, 3, 14]
BOOL = [4, 10, 11, 12, 13]


@harness(
    prop="C06",
    cubes={"quick": {"p": ARITH, "c": ARITH, "d": [0]}, "thorough": {"p": range(20), "c": range(20), "d": [0, 1]}},
    bounds={"quick": {"N": 9}, "thorough": {"N": 9}},
    timeout={"quick": 200, "thorough": 900},
    witness=[dict(p=1, c=2, d=0, g=0, pos=1, n=-4, ul=False)],
    doc="depth-3 spines parent p > child c > grandchild g (symbolic, any of 20 kinds) > leaves; quick: p, c over "
        "+ - * / and unary minus; thorough: all 20 x 20 (p, c)",
)
def c06_spine(p: int, c: int, d: int, g: int, pos: int, n: int, ul: bool) -> int:
    """
    bound: 0 <= g <= 19 and 0 <= pos <= 1
    bound: -N <= n <= N
    """
    return _spine("c06_spine", p, c, d, g, pos, n, ul)


@harness(
    prop="C06",
    cubes={"quick": {"p": BOOL, "c": BOOL, "d": [1]}, "thorough": {"p": BOOL, "c": BOOL, "d": range(ND)}},
    bounds={"quick": {"N": 9}, "thorough": {"N": 9}},
    timeout={"quick": 200, "thorough": 900},
    witness=[dict(p=10, c=11, d=1, g=10, pos=0, n=2, ul=False)],
    doc="depth-3 spines over comparison = / AND / OR / XOR / NOT parents and children, grandchild any kind",
)
def c06_spine_bool(p: int, c: int, d: int, g: int, pos: int, n: int, ul: bool) -> int:
    """
    bound: 0 <= g <= 19 and 0 <= pos <= 1
    bound: -N <= n <= N
    """
    return _spine("c06_spine_bool", p, c, d, g, pos, n, ul)


@harness(
    prop="C06",
    cubes={"quick": {"p": ARITH, "c": ARITH, "d": [0]}, "thorough": {"p": range(15), "c": range(15), "d": [0, 1]}},
    bounds={"quick": {"N": 9}, "thorough": {"N": 9}},
    timeout={"quick": 200, "thorough": 900},
    witness=[dict(p=3, c=2, d=0, g1=0, g2=0, pos=1, n=2)],
    doc="parent p > child c whose BOTH operands are compound (g1, g2 symbolic over + - * / unary minus) > leaves: "
        "compositions such as x/((a+b)*(c+d)) that no single (parent, child) triple shows",
)
def c06_both(p: int, c: int, d: int, g1: int, g2: int, pos: int, n: int) -> int:
    """
    bound: 0 <= g1 <= 4 and 0 <= g2 <= 4 and 0 <= pos <= 1
    bound: -N <= n <= N
    """
    n = rep(n)
    k1, k2 = ARITH[0], ARITH[0]
    for i in range(5):
        if g1 == i:
            k1 = ARITH[i]
        if g2 == i:
            k2 = ARITH[i]
    if pos >= arity(p) or arity(c) < 2:
        return SKIP
    a = node(k1, n, False, 0, None, ["x"])
    b = node(k2, n, True, 0, None, ["y"])
    if a is None or b is None:
        return SKIP
    child = mk(c, [a, b])
    if child is None:
        return SKIP
    ops = []
    for i in range(arity(p)):
        if i == pos:
            ops.append(child)
        else:
            ops.append(fld("s" + str(i)))
    built = mk(p, ops)
    if built is None:
        return SKIP
    return judge(built[0], built[1], "c06_both", p=p, c=c, d=d, g1=g1, g2=g2, pos=pos, n=n)


# ---- function classes as operands ----------------------------------------------------------------
def _function_classes():
    from harness import c12
    from pypika_tortoise.terms import Function
    return [i for i, (_, cls) in enumerate(c12.CLASSES) if issubclass(cls, Function)]


FUNCS = _function_classes()


def toplevel_ops(sql):
    """Operator characters outside quotes and brackets; None if a quote or bracket is unbalanced."""
    depth, i, out = 0, 0, []
    while i < len(sql):
        ch = sql[i]
        if ch == "'" or ch == '"' or ch == "`":
            j = sql.find(ch, i + 1)
            if j < 0:
                return None
            i = j + 1
            continue
        if ch == "(":
            depth += 1
        elif ch == ")":
            depth -= 1
            if depth < 0:
                return None
        elif depth == 0 and ch in "+-*/%<>=^|&,":
            out.append(ch)
        i += 1
    return out if depth == 0 else None


@harness(
    prop="C06",
    cubes={"k": range(len(FUNCS))},
    bounds={"quick": {}, "thorough": {}},
    timeout={"quick": 120, "thorough": 300},
    witness=[dict(k=0, d=4, pos=0), dict(k=5, d=2, pos=1)],
    doc="every Function subclass of the live package as the left operand of * and the right operand of / under the 6 "
        "dialect classes: its text is self-delimiting (no operator character outside quotes and brackets) or the parent "
        "brackets it",
)
def c06_functions(k: int, d: int, pos: int) -> int:
    """
    bound: 0 <= d <= 5 and 0 <= pos <= 1
    """
    from harness import c12
    from harness.snapshot import _NoTracing
    d = 0 if d == 0 else 1 if d == 1 else 2 if d == 2 else 3 if d == 3 else 4 if d == 4 else 5
    pos = 0 if pos == 0 else 1
    with _NoTracing():
        f = c12.make_term(FUNCS[k])
        if f is None:
            return SKIP
        name = c12.CLASSES[FUNCS[k]][1].__name__
        own = f.get_sql(dctx(d))
        ops = toplevel_ops(own)
        other = Field("s").get_sql(dctx(d))
        out = (f * Field("s") if pos == 0 else Field("s") / f).get_sql(dctx(d))
        note("cls", name)
        note("function", own)
        note("sql", out)
        if ops is None:
            return verdict(False, "c06_functions", k=k, d=d, pos=pos, cls=name)
        inner = own if not ops else "(" + own + ")"
        exp = (inner + "*" + other) if pos == 0 else (other + "/" + inner)
        note("expected", exp)
    return verdict(out == exp, "c06_functions", k=k, d=d, pos=pos, cls=name)
