"""C04 - parameterised rendering is equivalent to inline rendering.

Statements with values in several clauses and nesting levels; all slots hold distinct concrete
values except one (chosen by the cube) which holds the symbolic leaf.  Checked on the pair
(parameterised SQL, values) vs the inline SQL of the same object.
"""
from __future__ import annotations

from enum import Enum

from harness.common import *  # noqa: F401,F403
from pypika_tortoise import Case, Field
from pypika_tortoise import functions as fn
from pypika_tortoise.queries import QueryBuilder
from pypika_tortoise.terms import Array, Node, ValueWrapper

ASSUMPTIONS = [
    "reference placeholder table: '?' (generic/SQLite/SQL Server/Oracle), '%s' (MySQL), '$n' numbered from 1 (PostgreSQL)",
    "the inline literal form of a listed value may be either of the library's own wrapper renderings for that dialect "
    "(literal correctness itself is C05's subject)",
    "executing both forms on SQLite is not applicable (engine)",
]

PROBE = "PrObE"
DEFAULTS = ["v0", 11, "v2", 13, "v4", 15]
NSK = 15


class _Color(Enum):
    RED = "red"


class _Mood(str, Enum):  # a str-mixin enum member is an enum member first
    CALM = "calm"


def build(sk, d, V):
    Q = QS[d]
    t, u = Table("t"), Table("u")
    if sk == 0:  # several clauses of one SELECT + pagination
        return (Q.from_(t).select(t.a, fn.Coalesce(t.b, V[3]))
                .where(t.a == V[0]).where(t.b.isin([V[1], V[2]]))
                .groupby(t.a).having(fn.Count(t.c) > V[4]).orderby(t.a).limit(7).offset(3)), 5
    if sk == 1:  # subquery in FROM and in IN, values inside and outside
        sub = QS[0].from_(u).select(u.k).where(u.w == V[1])
        sub2 = QS[0].from_(u).select(u.k).where(u.w != V[2]).as_("s2")
        return Q.from_(sub2).select(sub2.k).where(sub2.k == V[0]).where(sub2.k.isin(sub)), 3
    if sk == 2:  # set operation (operands built with the same class) + pagination on the set operation
        q1 = Q.from_(t).select(t.a).where(t.a == V[0])
        q2 = Q.from_(u).select(u.a).where(u.a == V[1])
        q3 = Q.from_(u).select(u.k).where(u.k == V[2])
        return q1.union(q2).intersect(q3).limit(9), 3
    if sk == 3:  # CASE branches and function arguments
        c = Case().when(t.a == V[0], V[1]).when(t.a > V[3], "w").else_(V[2])
        return Q.from_(t).select(c.as_("c"), fn.Concat(t.b, V[4], t.c)), 5
    if sk == 4:  # INSERT rows
        return Q.into(t).columns("a", "b").insert((V[0], V[1]), (V[2], V[3])), 4
    if sk == 5:  # UPDATE SET/WHERE (+ clauses MySQL appends late)
        return Q.update(t).set(t.a, V[0]).set(t.b, V[1]).where(t.c == V[2]).orderby(t.a).limit(4), 3
    if sk == 6:  # upsert
        return (Q.into(t).columns("a", "b").insert(V[0], V[1]).on_conflict("a").do_update("b", V[2])
                .where(t.b != V[3])), 4
    if sk == 7:  # array value + BETWEEN + JOIN ON
        return (Q.from_(t).join(u).on((t.a == u.a) & (u.b == V[0])).select(t.a)
                .where(t.c == [V[1], V[2]]).where(t.d.between(V[3], V[4]))), 5
    if sk == 8:  # select term re-rendered by GROUP BY where aliases are not allowed (SQL Server / Oracle)
        term = (t.a + V[1]).as_("x")
        other = (t.c + V[2]).as_("y")  # aliased, holds a value, NOT grouped
        return Q.from_(t).select(other, term, fn.Max(t.b)).groupby(t.d, term).having(fn.Max(t.b) == V[0]), 3
    if sk == 9:  # INSERT ... SELECT with a CTE
        cte = QS[0].from_(u).select(u.k).where(u.w == V[0])
        from pypika_tortoise import AliasedQuery
        return (Q.with_(cte, "c").into(t).from_(AliasedQuery("c")).select(Field("k"), fn.Coalesce(Field("j"), V[1])).where(Field("k") > V[2])), 3
    if sk == 10:  # several values inside one arithmetic expression, both operands compound
        # (reflected operators called directly: a symbolic str on the left raises instead of returning NotImplemented)
        expr = ((t.a + V[0]) * (t.b - V[1])) / t.c.__radd__(V[2])
        return Q.from_(t).select(expr.as_("e")).where(t.d + V[3] > t.e.__rsub__(V[4])), 5
    if sk == 11:  # aliased select terms with values, DISTINCT, ORDER BY an aliased term of the select list; a set
        # operation ordered by an aliased select term
        x = fn.Coalesce(t.a, V[0]).as_("x")
        y = Case().when(t.b == V[1], V[2]).else_(V[3]).as_("y")
        q1 = Q.from_(t).select(x, y).distinct().where(t.c == V[4]).orderby(y)
        q2 = Q.from_(u).select(u.a, u.b)
        return q1.union_all(q2).orderby(y).limit(5).offset(6), 5
    if sk == 12:  # DISTINCT ON (PostgreSQL builder; plain DISTINCT elsewhere) before select-list values; negated and
        # nested criteria
        q = Q.from_(t).select(fn.Coalesce(t.a, V[1]), -(t.b + V[2]))
        q = q.distinct_on(fn.Coalesce(t.g, V[0])) if d == 2 else q.distinct().where(t.g == V[0])
        return q.where(~((t.c == V[3]) | (t.d != V[4]))), 5
    if sk == 13:  # aliased array of values, array holding a term, array as comparison operand
        return (Q.from_(t).select(Array(V[0], V[1]).as_("x"), Array(t.a, V[2]).as_("y"))
                .where(t.b == Array(V[3], 7)).where(t.c != V[4])), 5
    if sk == 14:  # GROUP BY / ORDER BY by select-list position (positions are not values), on a query and on a set operation
        q1 = Q.from_(t).select(t.a, fn.Coalesce(t.b, V[0])).where(t.c == V[1]).groupby(1).orderby(2)
        q2 = Q.from_(u).select(u.a, u.b).where(u.c == V[2])
        return q1.union(q2).orderby(1).limit(4), 3
    raise AssertionError(sk)


def scan_placeholders(sql, d):
    """Reference scan: list of placeholder texts outside quoted regions; None if a quote is unbalanced."""
    out = []
    i, n = 0, len(sql)
    while i < n:
        c = sql[i]
        if c == "'" or c == '"' or c == "`":
            j = sql.find(c, i + 1)
            if j < 0:
                return None
            i = j + 1
        elif c == "?":
            out.append("?")
            i += 1
        elif c == "%" and i + 1 < n and sql[i + 1] == "s":
            out.append("%s")
            i += 2
        elif c == "$":
            j = i + 1
            while j < n and sql[j] in "0123456789":
                j += 1
            out.append(sql[i:j])
            i = j
        else:
            i += 1
    return out


def render_pair(q, d):
    ictx = dctx(d)
    pctx = dctx(d, parameterized=True)
    if isinstance(q, QueryBuilder):  # (hasattr() is useless here: Selectable.__getattr__ answers every name)
        psql, vals = q.get_parameterized_sql(pctx)
    else:
        psql = q.get_sql(pctx)
        vals = pctx.parameterizer.values
    return psql, vals, q.get_sql(ictx)


def render_param(q, d):
    pctx = dctx(d, parameterized=True)
    if isinstance(q, QueryBuilder):
        return q.get_parameterized_sql(pctx)
    psql = q.get_sql(pctx)
    return psql, pctx.parameterizer.values


def inline_forms(v, d):
    ictx = dctx(d)
    forms = []
    if isinstance(v, list):
        forms.append(Array(*v).get_sql(ictx))
        return forms
    forms.append(ValueWrapper(v).get_sql(ictx))
    w = QS[d]._builder()._wrapper_cls(v).get_sql(ictx)
    if w != forms[0]:
        forms.append(w)
    return forms


def split_at_placeholders(psql):
    """Segments of psql between placeholders (reference scan, quoted regions skipped); None if unbalanced."""
    segs = []
    i, n = 0, len(psql)
    seg_start = 0
    while i < n:
        c = psql[i]
        if c == "'" or c == '"' or c == "`":
            j = psql.find(c, i + 1)
            if j < 0:
                return None
            i = j + 1
        elif c == "?":
            segs.append(psql[seg_start:i])
            i += 1
            seg_start = i
        elif c == "%" and i + 1 < n and psql[i + 1] == "s":
            segs.append(psql[seg_start:i])
            i += 2
            seg_start = i
        elif c == "$":
            j = i + 1
            while j < n and psql[j] in "0123456789":
                j += 1
            segs.append(psql[seg_start:i])
            i = j
            seg_start = i
        else:
            i += 1
    segs.append(psql[seg_start:])
    return segs


def substitute(psql, vals, d, isql, kstar):
    """Replace the placeholders left to right by an accepted inline form of their value; True iff isql results.
    `kstar` = index of the (only) possibly symbolic value, or None.  Concrete material is matched with
    startswith/endswith so that the symbolic middle is compared on its own (long symbolic equalities are slow)."""
    segs = split_at_placeholders(psql)
    if segs is None or len(segs) != len(vals) + 1:
        return False
    if not isql.startswith(segs[0]):
        return False
    prefix = segs[0]
    stop = len(vals) if kstar is None else kstar
    for k in range(stop):
        hit = None
        for f in inline_forms(vals[k], d):
            if isql.startswith(prefix + f + segs[k + 1]):
                hit = f
                break
        if hit is None:
            return False
        prefix = prefix + hit + segs[k + 1]
    if kstar is None:
        return len(isql) == len(prefix)
    suffix = ""
    for k in range(len(vals) - 1, kstar, -1):
        hit = None
        for f in inline_forms(vals[k], d):
            if isql.endswith(f + segs[k + 1] + suffix):
                hit = f
                break
        if hit is None:
            return False
        suffix = hit + segs[k + 1] + suffix
    # now isql must be prefix + form(vals[kstar]) + segs[kstar+1] + suffix
    tail = segs[kstar + 1] + suffix
    if len(isql) < len(prefix) + len(tail) or not isql.endswith(tail):
        return False
    mid = isql[len(prefix):len(isql) - len(tail)]
    for f in inline_forms(vals[kstar], d):
        if mid == f:
            return True
    return False


def pin(sel):
    """Selector -> concrete int through an if-chain (the solver enumerates the feasible values)."""
    if sel == 0:
        return 0
    if sel == 1:
        return 1
    if sel == 2:
        return 2
    if sel == 3:
        return 3
    return 4


def probe_info(sk, d, slot):
    """Everything about the probe instantiation (all concrete): parameterised text, values, inline text, and
    whether substitution reproduces the inline text."""
    V = list(DEFAULTS)
    built = build(sk, d, V)
    nslots = built[1]
    if slot >= nslots:
        return None
    V[slot] = PROBE
    qp = build(sk, d, V)[0]
    psql_p, vals_p, isql_p = render_pair(qp, d)
    return psql_p, list(vals_p), isql_p, substitute(psql_p, vals_p, d, isql_p, None)


def check(name, sk, d, slot, v, exempt, args):
    info = concrete_cached(probe_info, sk, d, slot)
    if info is None:
        return SKIP
    psql_p, vals_p, isql_p, probe_subst_ok = info
    V = list(DEFAULTS)
    V[slot] = v
    q = build(sk, d, V)[0]
    psql, vals = render_param(q, d)
    note("psql", psql)
    note("values", list(vals))  # (no repr here: repr() of a symbolic value forks per character class)
    note("isql_probe", isql_p)
    ok = True
    why = ""
    kstar = None
    # (1) placeholder style, count and numbering
    ph = scan_placeholders(psql, d)
    if ph is None or len(ph) != len(vals):
        ok, why = False, "placeholder count != len(values)"
    else:
        for i in range(len(ph)):
            if ph[i] != placeholder(d, i + 1):
                ok, why = False, "placeholder style/numbering"
    if sk == 14 and not (" GROUP BY 1 ORDER BY 2" in psql and " ORDER BY 1 LIMIT " in psql):
        ok, why = False, "a select-list position of GROUP BY / ORDER BY was bound as a value"
    # (2) plain data only
    for x in vals:
        if isinstance(x, Node):
            ok, why = False, "query-builder object in the value list"
        if isinstance(x, (list, tuple)):
            for y in x:
                if isinstance(y, Node):
                    ok, why = False, "query-builder object inside a list of the value list"
    # (3) a parameterised value is not in the SQL text: the SQL does not depend on it at all
    if ok and not exempt:
        if psql != psql_p:
            ok, why = False, "parameterised SQL depends on the value"
        elif len(vals) != len(vals_p):
            ok, why = False, "value list length depends on the value"
        else:
            hits = 0
            for i in range(len(vals)):
                if vals_p[i] == PROBE or (isinstance(vals_p[i], list) and PROBE in vals_p[i]):
                    hits += 1
                    kstar = i
                    if isinstance(vals_p[i], list):
                        same = isinstance(vals[i], list) and len(vals[i]) == len(vals_p[i])
                        if same:
                            for a, b in zip(vals[i], vals_p[i]):
                                if b == PROBE:
                                    same = same and (a is v or a == v)
                                else:
                                    same = same and a == b
                    else:
                        same = vals[i] is v or (type(vals[i]) is type(v) and vals[i] == v)
                    if not same:
                        ok, why = False, "value list does not hold the value at the probe's index"
                elif not (vals[i] == vals_p[i]):
                    ok, why = False, "another slot's value changed"
            if hits == 0:
                ok, why = False, "probe value not parameterised"
    # (4) substituting the inline literal forms gives the inline SQL.  Decided here for the probe instantiation
    # (all concrete); by (3) the parameterised text is the same for every value, so for a symbolic value what is
    # left is "the inline text is the probe's with the value's literal form in place", which c04_inline_equiv
    # decides on short statements (long symbolic strings cost ~20 s per path) and C05 at 12 positions.
    if ok and not probe_subst_ok:
        ok, why = False, "substituting inline forms does not reproduce the inline SQL (probe instantiation)"
    if ok and exempt and not substitute(psql, vals, d, q.get_sql(dctx(d)), None):
        ok, why = False, "substituting inline forms does not reproduce the inline SQL"
    if ok and exempt:
        # exempt by contract: inline in both renderings, i.e. absent from the value list
        scalar_hits = 0
        for x in vals_p:
            if not isinstance(x, list) and x == PROBE:
                scalar_hits += 1
        if scalar_hits > 0 and len(vals) != len(vals_p) - scalar_hits:
            ok, why = False, "a value that is exempt by contract was parameterised"
    note("why", why)
    return verdict(ok, name, **args)


@harness(
    prop="C04",
    cubes={"sk": range(NSK), "d": range(ND)},
    bounds={"quick": {"L": 2}, "thorough": {"L": 4}},
    timeout={"quick": 120, "thorough": 900},
    witness=[dict(sk=0, d=2, slot=0, s="x'"), dict(sk=2, d=2, slot=1, s="ab"), dict(sk=4, d=1, slot=3, s="*"),
             dict(sk=7, d=2, slot=1, s="q")],
    doc="15 skeletons x 6 dialect classes x value slot; the chosen slot holds any string (len<=L), the others distinct "
        "concrete values; '*' is the documented exemption",
)
def c04_str(sk: int, d: int, slot: int, s: str) -> int:
    """
    bound: len(s) <= L
    bound: 0 <= slot <= 4
    """
    slot = pin(slot)
    if s == "*":
        s = "*"  # pinned by the comparison: continue with the concrete string (keeps the rendered SQL concrete)
    if sk == 6 and slot == 3 and d == 1:
        return SKIP  # MySQL: ON DUPLICATE KEY UPDATE has no WHERE; the builder does not render it
    return check("c04_str", sk, d, slot, s, s == "*", dict(sk=sk, d=d, slot=slot, s=s))


@harness(
    prop="C04",
    cubes={"sk": range(NSK), "d": range(ND)},
    bounds={"quick": {"N": 99}, "thorough": {"N": 9999}},
    timeout={"quick": 120, "thorough": 600},
    witness=[dict(sk=0, d=2, slot=4, kind=0, n=-5, b=False), dict(sk=5, d=1, slot=1, kind=1, n=0, b=True),
             dict(sk=3, d=0, slot=2, kind=3, n=0, b=False)],
    doc="the slot holds an int (-N..N), a bool, None (inline NULL), a plain or str-mixin Enum member or an allow_parametrize=False "
        "wrapper (exempt by contract)",
)
def c04_scalar(sk: int, d: int, slot: int, kind: int, n: int, b: bool) -> int:
    """
    bound: 0 <= kind <= 5 and 0 <= slot <= 4
    bound: -N <= n <= N
    """
    slot = pin(slot)
    if kind == 0:
        v, exempt = n, False
    elif kind == 1:
        v, exempt = b, False
    elif kind == 2:
        v, exempt = None, True
    elif kind == 3:
        v, exempt = _Color.RED, True
    elif kind == 5:
        v, exempt = _Mood.CALM, True
    else:
        v, exempt = ValueWrapper(42, allow_parametrize=False), True  # (value concrete: it stays in the SQL text)
    if sk == 6 and slot == 2 and kind == 2:
        return SKIP  # do_update(field, None) means EXCLUDED.field
    if sk == 6 and slot == 3 and d == 1:
        return SKIP  # MySQL: ON DUPLICATE KEY UPDATE has no WHERE; the builder does not render it
    return check("c04_scalar", sk, d, slot, v, exempt, dict(sk=sk, d=d, slot=slot, kind=kind, n=n, b=b))


NSHORT = 8


def build_short(sk, d, v):
    Q = QS[d]
    t, u = Table("t"), Table("u")
    if sk == 0:
        return Q.from_(t).select(t.a).where(t.a == v)
    if sk == 1:
        return Q.from_(t).select(fn.Abs(v))
    if sk == 2:
        return Q.into(t).insert(v, 1)
    if sk == 3:
        return Q.update(t).set(t.a, v)
    if sk == 4:
        return Q.from_(t).select(t.a).where(t.a.isin([v, 2]))
    if sk == 5:
        return Q.from_(t).select(Case().when(t.a == 1, v).else_(2))
    if sk == 6:
        return Q.from_(t).select(t.a).where(t.a == [v, 1])
    if sk == 7:
        return Q.from_(t).select(t.a).where(t.a.isin(QS[0].from_(u).select(u.k).where(u.k == v)))
    raise AssertionError(sk)


@harness(
    prop="C04",
    cubes={"sk": range(NSHORT), "d": range(ND)},
    bounds={"quick": {"L": 2}, "thorough": {"L": 4}},
    timeout={"quick": 200, "thorough": 1200},
    witness=[dict(sk=0, d=2, s="x'"), dict(sk=6, d=2, s="q"), dict(sk=7, d=1, s="*")],
    doc="placeholder substitution reproduces the inline SQL for a symbolic string value (len<=L) on 8 short statements "
        "(criterion, function argument, INSERT row, SET, IN list, CASE, array, nested subquery) x 6 dialects",
)
def c04_inline_equiv(sk: int, d: int, s: str) -> int:
    """
    bound: len(s) <= L
    """
    if s == "*":
        s = "*"  # pinned by the comparison: continue with the concrete string
    q = build_short(sk, d, s)
    psql, vals, isql = render_pair(q, d)
    note("psql", psql)
    note("values", list(vals))  # (no repr here: repr() of a symbolic value forks per character class)
    note("isql", isql)
    kstar = None
    for i in range(len(vals)):
        if vals[i] is s or (isinstance(vals[i], list) and len(vals[i]) == 2 and vals[i][0] is s):
            kstar = i
    ok = substitute(psql, vals, d, isql, kstar)
    if ok and kstar is None and s != "*":
        ok = False
        note("why", "value neither parameterised nor exempt")
    return verdict(ok, "c04_inline_equiv", sk=sk, d=d, s=s)
