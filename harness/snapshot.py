"""Structural snapshot of an object graph: nested tuples over __dict__, lists, tuples, sets, dicts.

Identical snapshots => identical renderings, parameter lists and metadata (rendering reads nothing
else, given C02).  Leaves are kept as they are (a symbolic leaf stays the same symbolic object, so
comparing two snapshots that hold it costs nothing).  Cycles and shared nodes are cut by identity.
"""
from __future__ import annotations

import enum
import inspect

ATOMS = (str, int, float, bool, type(None), bytes)

try:  # symbolic runs: take snapshots outside the tracer (native speed); symbolic leaves are compared by identity
    from crosshair.tracers import NoTracing as _NoTracing
except Exception:  # concrete replays
    import contextlib

    _NoTracing = contextlib.nullcontext


def snap_nt(x):
    """snap(x) computed outside CrossHair's tracer.  A symbolic leaf appears as ("sym", <proxy type>): two snapshots are
    equal iff the graphs have the same shape, the same concrete leaves and symbolic leaves of the same kind at the same
    places (each harness has one symbolic str and one symbolic int, so a swap of one for the other is still seen)."""
    with _NoTracing():
        return snap(x)


def same_nt(a, b):
    with _NoTracing():
        return a == b


def snap_traced(x, _memo=None):
    """Snapshot taken under the tracer: symbolic leaves stay as they are, so comparing two such snapshots asks the
    solver about the leaves (used only when the untraced comparison says 'different')."""
    if _memo is None:
        _memo = {}
    if isinstance(x, ATOMS):
        return x
    if isinstance(x, enum.Enum):
        return ("enum", type(x).__name__, x.name)
    if inspect.isclass(x):
        return ("class", x.__module__, x.__qualname__)
    if inspect.isfunction(x) or inspect.ismethod(x) or inspect.isbuiltin(x):
        return ("fn", getattr(x, "__qualname__", repr(x)))
    k = id(x)
    if k in _memo:
        return ("ref", _memo[k])
    _memo[k] = len(_memo)
    if isinstance(x, (list, tuple)):
        return (type(x).__name__,) + tuple(snap_traced(v, _memo) for v in x)
    if isinstance(x, (set, frozenset)):
        items = [snap_traced(v, _memo) for v in x]
        try:
            items.sort(key=repr)
        except Exception:
            pass
        return ("set",) + tuple(items)
    if isinstance(x, dict):
        return ("dict",) + tuple((snap_traced(a, _memo), snap_traced(b, _memo)) for a, b in x.items())
    if isinstance(x, slice):
        return ("slice", x.start, x.stop, x.step)
    d = getattr(x, "__dict__", None)
    if d is None:
        return ("obj", type(x).__name__, repr(x))
    return ("obj", type(x).__module__, type(x).__qualname__) + tuple(
        (name, snap_traced(v, _memo)) for name, v in sorted(d.items())
    )


def same_structure(a, b):
    """a and b (objects) have equal snapshots: fast untraced comparison first, solver-backed comparison on mismatch."""
    if same_nt(snap_nt(a), snap_nt(b)):
        return True
    return snap_traced(a) == snap_traced(b)


def _kind(x):
    n = type(x).__name__
    for k in ("Str", "Int", "Bool", "Float"):
        if k in n:
            return k.lower()
    return n


def snap(x, _memo=None, _depth=0):
    if _memo is None:
        _memo = {}
    if isinstance(x, ATOMS):
        return x
    if type(x).__module__.startswith("crosshair"):
        return ("sym", _kind(x))
    if isinstance(x, enum.Enum):
        return ("enum", type(x).__name__, x.name)
    if inspect.isclass(x):
        return ("class", x.__module__, x.__qualname__)
    if inspect.isfunction(x) or inspect.ismethod(x) or inspect.isbuiltin(x):
        return ("fn", getattr(x, "__qualname__", repr(x)))
    k = id(x)
    if k in _memo:
        return ("ref", _memo[k])
    _memo[k] = len(_memo)
    if isinstance(x, (list, tuple)):
        return (type(x).__name__,) + tuple(snap(v, _memo, _depth + 1) for v in x)
    if isinstance(x, (set, frozenset)):
        # order-insensitive: sort by the repr of the element snapshots (elements here are tables / short strings)
        items = [snap(v, _memo, _depth + 1) for v in x]
        try:
            items.sort(key=repr)
        except Exception:
            pass
        return ("set",) + tuple(items)
    if isinstance(x, dict):
        return ("dict",) + tuple((snap(a, _memo, _depth + 1), snap(b, _memo, _depth + 1)) for a, b in x.items())
    if isinstance(x, slice):
        return ("slice", x.start, x.stop, x.step)
    d = getattr(x, "__dict__", None)
    if d is None:
        return ("obj", type(x).__name__, repr(x))
    return ("obj", type(x).__module__, type(x).__qualname__) + tuple(
        (name, snap(v, _memo, _depth + 1)) for name, v in sorted(d.items())
    )
