"""C08 - one dialect's conventions govern the whole statement tree.

(a) relational: a statement of dialect class D whose nested parts (subqueries, CTE bodies, join
    operands, set-operation operands, criteria) were built with the GENERIC classes must render
    exactly like the same program with the nested parts built with D's own classes - for every
    nesting construct, depth 1-2 and dialect-sensitive leaf; and the leaf's text must be the
    reference form of the dialect.
(b) cross-dialect: for the dialect-neutral subset the renderings under two dialect classes are the
    same token stream once identifier quotes and placeholders are normalised.
"""
from __future__ import annotations

from harness.common import *  # noqa: F401,F403
from harness.snapshot import _NoTracing
from pypika_tortoise import AliasedQuery, Field
from pypika_tortoise import functions as fn
from pypika_tortoise.terms import Array, Interval

ASSUMPTIONS = [
    "reference leaf forms (written from the dialect manuals): identifier quote ` for MySQL else \"; placeholders %s / $n "
    "/ ?; arrays ARRAY[..] for PostgreSQL else [..]; interval INTERVAL '3' DAY for MySQL/Oracle else INTERVAL '3 DAY'; "
    "backslash doubled inside MySQL string literals; GROUP BY alias not used by SQL Server / Oracle; set-operation operands "
    "not bracketed by MySQL",
    "cross-dialect comparison only for programs without pagination, set operations, booleans, arrays, intervals",
]

NCON = 8
NLEAF = 11
BS = chr(92)


def pin(v, n):
    for i in range(n):
        if v == i:
            return i
    return n - 1


def leaf_query(Qi, leaf, s):
    """Innermost query, built with class Qi, holding the dialect-sensitive leaf."""
    t = Table("t")
    q = Qi.from_(t)
    if leaf == 0:  # string value (backslash, quote)
        return q.select(t.k, t.v).where(t.b == s)
    if leaf == 1:  # boolean in a criterion
        return q.select(t.k, t.v).where(t.b == True)  # noqa: E712
    if leaf == 2:  # array
        return q.select(t.k, t.v).where(t.b == [1, 2])
    if leaf == 3:  # interval
        return q.select(t.k, t.v).where(t.b > Field("now") - Interval(days=3))
    if leaf == 4:  # values that become placeholders
        return q.select(t.k, t.v).where(t.b == "p1").where(t.c.isin([7, "p2"]))
    if leaf == 5:  # aliased select term referenced from GROUP BY / ORDER BY
        term = (t.k + 1).as_("kk")
        return q.select(term, fn.Max(t.v)).groupby(term).orderby(term)
    if leaf == 6:  # identifier that needs the dialect's quoting
        return q.select(Field('k"`x', table=t), t.v)
    if leaf == 7:  # function + LIKE (neutral)
        return q.select(fn.Upper(t.k), t.v).where(t.b.like("x%"))
    if leaf == 8:  # interval passed as a function argument
        from pypika_tortoise.terms import Function
        return q.select(t.k, Function("DATE_ADD", t.v, Interval(days=3)))
    if leaf == 9:  # JSON document (dict) in a criterion: json.dumps escapes need the dialect's string rules on top
        return q.select(t.k, t.v).where(t.b == {"k": 'a"b' + BS})
    if leaf == 10:  # intervals that carry a dialect= hint of their own (one per template family): the rendering class still decides
        from pypika_tortoise.enums import Dialects
        now = Field("now")
        return (q.select(t.k, t.v).where(t.b > now - Interval(days=3, dialect=Dialects.MYSQL))
                .where(t.c > now - Interval(days=3, dialect=Dialects.POSTGRESQL)))
    raise AssertionError(leaf)


def nest(Q, Qi, con, inner):
    """Outer statement of class Q embedding `inner` through construct `con` (inner-level pieces built with Qi)."""
    o = Table("o")
    if con == 0:
        inner = inner.as_("s1")
        return Q.from_(inner).select(inner.k)
    if con == 1:
        inner = inner.as_("s1")
        return Q.from_(o).join(inner).on(o.k == inner.k).select(o.k)
    if con == 2:
        return Q.from_(o).select(o.k).where(o.k.isin(inner))
    if con == 3:
        return Q.from_(o).select(o.k, inner)
    if con == 4:
        return Q.with_(inner, "c1").from_(AliasedQuery("c1")).select(Field("k"))
    if con == 5:
        return Q.from_(o).select(o.k, o.v).union(inner)
    if con == 6:
        inner = inner.as_("s1")
        return Q.into(o).columns("k").from_(inner).select(inner.k)
    if con == 7:
        return Q.from_(o).select(o.k).where(o.k == inner)
    raise AssertionError(con)


def program(d, inner_cls, con, depth, leaf, s):
    """Statement of class d; the nested parts are built with class inner_cls."""
    Q, Qi = QS[d], QS[inner_cls]
    inner = leaf_query(Qi, leaf, s)
    if depth == 2:
        # one more level built with the same inner class: the leaf query sits inside an IN of a middle query
        m = Table("m")
        inner = Qi.from_(m).select(m.k, m.v).where(m.k.isin(leaf_query(Qi, leaf, s)))
    return nest(Q, Qi, con, inner)


def leaf_reference(d, leaf, s):
    """Reference text of the leaf under dialect class d (None = no single reference text for this leaf)."""
    q = "`" if d == 1 else '"'
    if leaf == 0:
        enc = s.replace("'", "''")
        if d == 1:
            enc = enc.replace(BS, BS + BS)
        return q + "b" + q + "='" + enc + "'"
    if leaf == 2:
        return q + "b" + q + ("=ARRAY[1,2]" if d == 2 else "=[1,2]")
    if leaf == 3 or leaf == 8 or leaf == 10:
        return "INTERVAL '3' DAY" if d in (1, 5) else "INTERVAL '3 DAY'"
    if leaf == 6:
        return q + ('k"`x'.replace(q, q + q)) + q
    if leaf == 9:
        import json
        enc = json.dumps({"k": 'a"b' + BS}).replace("'", "''")
        if d == 1:
            enc = enc.replace(BS, BS + BS)
        return q + "b" + q + "='" + enc + "'"
    return None


def render(stmt, d, par):
    if par:
        ctx = dctx(d, True)
        return stmt.get_sql(ctx), list(ctx.parameterizer.values)
    return stmt.get_sql(dctx(d)), []


def check_nested(name, d, con, depth, leaf, par, s, args):
    generic = program(d, 0, con, depth, leaf, s)
    native = program(d, d, con, depth, leaf, s)
    g_sql, g_vals = render(generic, d, par)
    n_sql, n_vals = render(native, d, par)
    note("generic_parts", g_sql)
    note("native_parts", n_sql)
    # stage 1: the program built entirely with the dialect's own classes
    if con == 5 and not par and not (str(native) == n_sql):
        note("str", str(native))
        note("why", "str() of the set operation differs from its rendering under the dialect's own context")
        return verdict(False, name, stage=1, **args)
    if not par:
        ref = leaf_reference(d, leaf, s)
        if ref is not None and (ref not in n_sql or (leaf == 10 and n_sql.count(ref) != 2)):
            note("why", "leaf is not in the dialect's reference form: " + ref)
            return verdict(False, name, stage=1, **args)
    if leaf == 5 and d in (4, 5) and not par and ' GROUP BY "kk"' in n_sql:
        note("why", "GROUP BY refers to an alias under a dialect that forbids it")
        return verdict(False, name, stage=1, **args)
    args = dict(args, stage=2)
    # stage 2: nested parts built with the generic classes
    ok = g_sql == n_sql and len(g_vals) == len(n_vals)
    why = "" if ok else "nested parts built with the generic classes render differently from the dialect's own"
    if ok and not par:
        ref = leaf_reference(d, leaf, s)
        if ref is not None and (ref not in g_sql or (leaf == 10 and g_sql.count(ref) != 2)):
            ok, why = False, "leaf is not in the dialect's reference form: " + ref
    note("why", why)
    if ok and par and leaf == 4:
        want = ["%s", "%s", "%s"] if d == 1 else (["$1", "$2", "$3"] if d == 2 else ["?", "?", "?"])
        pos = 0
        for w in want:
            pos = g_sql.find(w, pos)
            if pos < 0:
                ok, why = False, "placeholders are not the dialect's"
                break
            pos += len(w)
    if ok and con == 5 and not par:
        # str() of a set operation starts from the default context; the base query's dialect must still govern it
        if not (str(generic) == g_sql):
            ok, why = False, "str() of the set operation differs from its rendering under the dialect's context"
            note("str", str(generic))
    note("why", why)
    return verdict(ok, name, **args)


@harness(
    prop="C08",
    cubes={"d": range(1, ND), "con": range(NCON)},
    bounds={"quick": {}, "thorough": {}},
    timeout={"quick": 200, "thorough": 600},
    witness=[dict(d=1, con=0, depth=1, leaf=0, par=False), dict(d=2, con=5, depth=2, leaf=4, par=True),
             dict(d=5, con=4, depth=1, leaf=5, par=False)],
    doc="5 non-generic dialect classes x 8 nesting constructs x depth 1-2 x 10 dialect-sensitive leaves x inline / "
        "parameterised: nested parts built generically render exactly like nested parts built with the dialect's classes, "
        "and the leaf shows the dialect's reference form",
)
def c08_nested(d: int, con: int, depth: int, leaf: int, par: bool) -> int:
    """
    bound: 1 <= depth <= 2 and 0 <= leaf <= 10
    """
    depth, leaf, par = pin(depth - 1, 2) + 1, pin(leaf, NLEAF), bool(par)
    with _NoTracing():
        return check_nested("c08_nested", d, con, depth, leaf, par, "a" + BS + "b'c",
                            dict(d=d, con=con, depth=depth, leaf=leaf, par=par))


@harness(
    prop="C08",
    cubes={"d": range(1, ND), "con": [0, 2, 4, 5]},
    bounds={"quick": {"L": 2}, "thorough": {"L": 4}},
    timeout={"quick": 200, "thorough": 900},
    witness=[dict(d=1, con=0, s=BS), dict(d=2, con=5, s="'")],
    doc="the string leaf is symbolic (any string len<=L): generic-built nested part vs dialect-built, and the dialect's "
        "reference literal form, at depth 1",
)
def c08_nested_string(d: int, con: int, s: str) -> int:
    """
    bound: len(s) <= L
    """
    if s == "*":
        s = "*"
    return check_nested("c08_nested_string", d, con, 1, 0, False, s, dict(d=d, con=con, s=s))


def normalise(sql, d):
    out = sql.replace("`", '"') if d == 1 else sql
    if d == 1:
        out = out.replace("%s", "?")
    if d == 2:
        # $n -> ?
        res = ""
        i = 0
        while i < len(out):
            if out[i] == "$" and i + 1 < len(out) and out[i + 1] in "0123456789":
                j = i + 1
                while j < len(out) and out[j] in "0123456789":
                    j += 1
                res += "?"
                i = j
            else:
                res += out[i]
                i += 1
        out = res
    return out


@harness(
    prop="C08",
    cubes={"con": [0, 1, 2, 3, 4, 6, 7]},
    bounds={"quick": {}, "thorough": {}},
    timeout={"quick": 200, "thorough": 600},
    witness=[dict(con=0, d1=1, d2=2, depth=1, leaf=7, par=True)],
    doc="dialect-neutral programs (leaves 4 and 7: plain values, function, LIKE; no set operation) under every ordered pair "
        "of dialect classes x depth 1-2 x inline/parameterised: identical text once identifier quotes and placeholders are "
        "normalised; identical parameter lists",
)
def c08_cross(con: int, d1: int, d2: int, depth: int, leaf: int, par: bool) -> int:
    """
    bound: 0 <= d1 <= 5 and 0 <= d2 <= 5 and 1 <= depth <= 2 and 0 <= leaf <= 1
    """
    d1, d2, depth, par = pin(d1, 6), pin(d2, 6), pin(depth - 1, 2) + 1, bool(par)
    leaf = 4 if pin(leaf, 2) == 0 else 7
    with _NoTracing():
        a, av = render(program(d1, 0, con, depth, leaf, "x"), d1, par)
        b, bv = render(program(d2, 0, con, depth, leaf, "x"), d2, par)
        na, nb = normalise(a, d1), normalise(b, d2)
        note("sql_d1", a)
        note("sql_d2", b)
        ok = na == nb and av == bv
    return verdict(ok, "c08_cross", con=con, d1=d1, d2=d2, depth=depth, leaf=leaf, par=par)
