"""Introspection of the live package: @builder methods, Term subclasses (quantifier domains that are lists of code objects)."""
from __future__ import annotations

import importlib
import inspect
import pkgutil

import pypika_tortoise


def modules():
    out = [pypika_tortoise]
    for m in pkgutil.walk_packages(pypika_tortoise.__path__, "pypika_tortoise."):
        out.append(importlib.import_module(m.name))
    return out


def is_builder(fn):
    return (inspect.isfunction(fn) and fn.__name__ == "_copy" and fn.__closure__
            and any(inspect.isfunction(c.cell_contents) for c in fn.__closure__ if _has(c)))


def _has(cell):
    try:
        cell.cell_contents
        return True
    except ValueError:
        return False


def wrapped(fn):
    for c in fn.__closure__:
        if _has(c) and inspect.isfunction(c.cell_contents):
            return c.cell_contents
    return None


def classes():
    seen = {}
    for m in modules():
        for name, obj in vars(m).items():
            if inspect.isclass(obj) and obj.__module__.startswith("pypika_tortoise"):
                seen[obj.__module__ + "." + obj.__qualname__] = obj
    return seen


def builder_methods():
    """[(class qualified name, class, method name, defining class qualified name)] for every class that defines or inherits a @builder method."""
    out = []
    for qn, cls in sorted(classes().items()):
        for name in sorted(dir(cls)):
            try:
                attr = inspect.getattr_static(cls, name)
            except AttributeError:
                continue
            if is_builder(attr):
                owner = next(k for k in cls.__mro__ if name in vars(k))
                out.append((qn, cls, name, owner.__module__ + "." + owner.__qualname__))
    return out


def defining_builder_methods():
    return [(qn, cls, name) for qn, cls, name, owner in builder_methods() if owner == qn]


if __name__ == "__main__":
    bm = builder_methods()
    d = defining_builder_methods()
    print(len(bm), "inherited+defined;", len(d), "defined")
    cur = None
    for qn, cls, name in d:
        if qn != cur:
            print(qn)
            cur = qn
        print("    ", name, inspect.signature(wrapped(inspect.getattr_static(cls, name))))
