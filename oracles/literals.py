"""Reference lexers/decoders for SQL string literals (trusted base; written from the dialect manuals).

decode_std   : standard SQL (SQLite, PostgreSQL with standard_conforming_strings, Oracle, SQL Server):
               '...' with '' standing for one quote; backslash is an ordinary character.
decode_mysql : MySQL default sql_mode: additionally backslash escapes (\\0 \\' \\" \\b \\n \\r \\t \\Z \\\\,
               \\% and \\_ keep the backslash, any other \\x is x).

Both return the decoded text when `lit` is exactly ONE literal token spanning all of `lit`,
else None.  Written with explicit indices so that they run on symbolic strings.
"""
from __future__ import annotations

Q = "'"
BS = chr(92)

_MYSQL_ESC = {"0": chr(0), "'": "'", '"': '"', "b": chr(8), "n": chr(10), "r": chr(13), "t": chr(9),
              "Z": chr(26), BS: BS}


def decode_std(lit):
    n = len(lit)
    if n < 2 or lit[0] != Q:
        return None
    out = ""
    i = 1
    while i < n:
        c = lit[i]
        if c == Q:
            if i + 1 < n and lit[i + 1] == Q:
                out = out + Q
                i += 2
            else:
                if i == n - 1:
                    return out
                return None
        else:
            out = out + c
            i += 1
    return None


def decode_mysql(lit):
    n = len(lit)
    if n < 2 or lit[0] != Q:
        return None
    out = ""
    i = 1
    while i < n:
        c = lit[i]
        if c == Q:
            if i + 1 < n and lit[i + 1] == Q:
                out = out + Q
                i += 2
            else:
                if i == n - 1:
                    return out
                return None
        elif c == BS:
            if i + 1 >= n:
                return None
            e = lit[i + 1]
            if e == "0":
                out = out + chr(0)
            elif e == Q:
                out = out + Q
            elif e == '"':
                out = out + '"'
            elif e == "b":
                out = out + chr(8)
            elif e == "n":
                out = out + chr(10)
            elif e == "r":
                out = out + chr(13)
            elif e == "t":
                out = out + chr(9)
            elif e == "Z":
                out = out + chr(26)
            elif e == BS:
                out = out + BS
            elif e == "%" or e == "_":
                out = out + BS + e
            else:
                out = out + e
            i += 2
        else:
            out = out + c
            i += 1
    return None


def decode(lit, mysql):
    return decode_mysql(lit) if mysql else decode_std(lit)


def encode(text, mysql):
    """Reference encoder (canonical form).  decode(encode(t)) == t is checked by the solver as a lemma
    (harness c05_oracle_lemma), which is what lets `literal_ok` accept the canonical form without lexing."""
    enc = text.replace(Q, Q + Q)
    if mysql:
        enc = enc.replace(BS, BS + BS)
    return Q + enc + Q


def literal_ok(lit, text, mysql):
    """True iff `lit` is one literal token of the dialect that decodes to `text`."""
    if lit == encode(text, mysql):
        return True
    dec = decode(lit, mysql)
    return dec is not None and dec == text
