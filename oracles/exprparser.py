"""Reference tokenizer + precedence parser for the SQL expression sub-language (trusted base).

Precedence, loosest first:  OR < XOR < AND < NOT < comparison (= <> < <= > >= IN BETWEEN IS NULL)
< + - < * / < unary minus < atoms.  Binary operators associate to the left.  `--` and `/*` are
comment openers: a text containing them outside a quoted token is rejected (returns None).

Trees are nested tuples:
    ("id", name) ("num", digits) ("str", text) ("neg", x) ("not", x) ("bin", op, l, r)
    ("fn", NAME, (args...)) ("case", ((when, then)...), else|None) ("in", x, (items...), negated)
    ("between", x, lo, hi) ("isnull", x) ("tuple", (items...))
"""
from __future__ import annotations

CMP = ("=", "<>", "<", "<=", ">", ">=")
DIGITS = "0123456789"
LETTERS = "ABCDEFGHIJKLMNOPQRSTUVWXYZabcdefghijklmnopqrstuvwxyz_"


def tokenize(s):
    toks = []
    i = 0
    n = len(s)
    while i < n:
        c = s[i]
        if c == " ":
            i += 1
        elif c == '"' or c == "`":
            j = s.find(c, i + 1)
            if j < 0:
                return None
            toks.append(("id", s[i + 1:j]))
            i = j + 1
        elif c == "'":
            j = s.find("'", i + 1)
            if j < 0:
                return None
            toks.append(("str", s[i + 1:j]))
            i = j + 1
        elif c in DIGITS:
            j = i
            while j < n and (s[j] in DIGITS or s[j] == "."):
                j += 1
            toks.append(("num", s[i:j]))
            i = j
        elif c in LETTERS:
            j = i
            while j < n and (s[j] in LETTERS or s[j] in DIGITS):
                j += 1
            toks.append(("word", s[i:j].upper()))
            i = j
        elif c == "-":
            if i + 1 < n and s[i + 1] == "-":
                return None  # comment opener
            toks.append(("op", "-"))
            i += 1
        elif c == "/":
            if i + 1 < n and s[i + 1] == "*":
                return None  # comment opener
            toks.append(("op", "/"))
            i += 1
        elif c == "<":
            if i + 1 < n and s[i + 1] == ">":
                toks.append(("op", "<>"))
                i += 2
            elif i + 1 < n and s[i + 1] == "=":
                toks.append(("op", "<="))
                i += 2
            else:
                toks.append(("op", "<"))
                i += 1
        elif c == ">":
            if i + 1 < n and s[i + 1] == "=":
                toks.append(("op", ">="))
                i += 2
            else:
                toks.append(("op", ">"))
                i += 1
        elif c in "=+*(),.":
            toks.append(("op", c))
            i += 1
        else:
            return None
    return toks


class _P:
    def __init__(self, toks):
        self.t = toks
        self.i = 0

    def peek(self):
        return self.t[self.i] if self.i < len(self.t) else ("eof", "")

    def take(self):
        tok = self.peek()
        self.i += 1
        return tok

    def is_word(self, w):
        k, v = self.peek()
        return k == "word" and v == w

    def is_op(self, o):
        k, v = self.peek()
        return k == "op" and v == o

    def expect_op(self, o):
        if not self.is_op(o):
            raise ValueError("expected " + o)
        self.i += 1

    def expect_word(self, w):
        if not self.is_word(w):
            raise ValueError("expected " + w)
        self.i += 1

    # ---- grammar ----
    def p_or(self):
        x = self.p_xor()
        while self.is_word("OR"):
            self.i += 1
            x = ("bin", "OR", x, self.p_xor())
        return x

    def p_xor(self):
        x = self.p_and()
        while self.is_word("XOR"):
            self.i += 1
            x = ("bin", "XOR", x, self.p_and())
        return x

    def p_and(self):
        x = self.p_not()
        while self.is_word("AND"):
            self.i += 1
            x = ("bin", "AND", x, self.p_not())
        return x

    def p_not(self):
        if self.is_word("NOT"):
            self.i += 1
            return ("not", self.p_not())
        return self.p_cmp()

    def p_cmp(self):
        x = self.p_add()
        while True:
            k, v = self.peek()
            if k == "op" and v in CMP:
                self.i += 1
                x = ("bin", v, x, self.p_add())
            elif k == "word" and v == "IN":
                self.i += 1
                x = ("in", x, self.p_list(), False)
            elif k == "word" and v == "NOT" and self.i + 1 < len(self.t) and self.t[self.i + 1] == ("word", "IN"):
                self.i += 2
                x = ("in", x, self.p_list(), True)
            elif k == "word" and v == "BETWEEN":
                self.i += 1
                lo = self.p_add()
                self.expect_word("AND")
                hi = self.p_add()
                x = ("between", x, lo, hi)
            elif k == "word" and v == "IS":
                self.i += 1
                self.expect_word("NULL")
                x = ("isnull", x)
            else:
                return x

    def p_list(self):
        self.expect_op("(")
        items = [self.p_or()]
        while self.is_op(","):
            self.i += 1
            items.append(self.p_or())
        self.expect_op(")")
        return tuple(items)

    def p_add(self):
        x = self.p_mul()
        while self.is_op("+") or self.is_op("-"):
            _, v = self.take()
            x = ("bin", v, x, self.p_mul())
        return x

    def p_mul(self):
        x = self.p_unary()
        while self.is_op("*") or self.is_op("/"):
            _, v = self.take()
            x = ("bin", v, x, self.p_unary())
        return x

    def p_unary(self):
        if self.is_op("-"):
            self.i += 1
            return ("neg", self.p_unary())
        return self.p_atom()

    def p_atom(self):
        k, v = self.take()
        if k == "num":
            return ("num", v)
        if k == "str":
            return ("str", v)
        if k == "id":
            return ("id", v)
        if k == "op" and v == "(":
            x = self.p_or()
            if self.is_op(","):
                items = [x]
                while self.is_op(","):
                    self.i += 1
                    items.append(self.p_or())
                self.expect_op(")")
                return ("tuple", tuple(items))
            self.expect_op(")")
            return x
        if k == "word" and v == "CASE":
            whens = []
            while self.is_word("WHEN"):
                self.i += 1
                w = self.p_or()
                self.expect_word("THEN")
                whens.append((w, self.p_or()))
            els = None
            if self.is_word("ELSE"):
                self.i += 1
                els = self.p_or()
            self.expect_word("END")
            return ("case", tuple(whens), els)
        if k == "word" and v in ("NULL", "TRUE", "FALSE"):
            return ("kw", v)
        if k == "word" and self.is_op("("):
            self.i += 1
            args = []
            if not self.is_op(")"):
                args.append(self.p_or())
                while self.is_op(","):
                    self.i += 1
                    args.append(self.p_or())
            self.expect_op(")")
            return ("fn", v, tuple(args))
        raise ValueError("unexpected token %r" % (v,))


def parse(text):
    """Tree of `text`, or None when it does not lex/parse as one expression."""
    toks = tokenize(text)
    if toks is None:
        return None
    p = _P(toks)
    try:
        x = p.p_or()
    except ValueError:
        return None
    if p.i != len(toks):
        return None
    return x


# ---- normal form: the re-associations the property allows --------------------------------------
def _sum_terms(t, sign, out):
    if t[0] == "bin" and (t[1] == "+" or t[1] == "-"):
        _sum_terms(t[2], sign, out)
        _sum_terms(t[3], sign if t[1] == "+" else -sign, out)
    else:
        out.append((sign, nf(t)))


def _chain(t, op, out):
    if t[0] == "bin" and t[1] == op:
        _chain(t[2], op, out)
        _chain(t[3], op, out)
    else:
        out.append(nf(t))


def nf(t):
    k = t[0]
    if k == "bin":
        op = t[1]
        if op == "+" or op == "-":
            out = []
            _sum_terms(t, 1, out)
            return ("sum", tuple(out))
        if op == "*" or op == "AND" or op == "OR" or op == "XOR":
            out = []
            _chain(t, op, out)
            return ("chain", op, tuple(out))
        return ("bin", op, nf(t[2]), nf(t[3]))
    if k == "neg" or k == "not" or k == "isnull":
        return (k, nf(t[1]))
    if k == "fn":
        return ("fn", t[1], tuple(nf(a) for a in t[2]))
    if k == "case":
        return ("case", tuple((nf(w), nf(th)) for w, th in t[1]), nf(t[2]) if t[2] is not None else None)
    if k == "in":
        return ("in", nf(t[1]), tuple(nf(a) for a in t[2]), t[3])
    if k == "between":
        return ("between", nf(t[1]), nf(t[2]), nf(t[3]))
    if k == "tuple":
        return ("tuple", tuple(nf(a) for a in t[1]))
    return t
